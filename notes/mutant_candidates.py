"""
Design-phase data (not framework code): property-breaking changes to fxpmath that were
CONFIRMED during reconnaissance to leave the 86 baseline tests passing
(`pytest tests` on a scratch copy, the 3 always-failing tests deselected).

Each entry: name -> (file under fxpmath/, exact original text (occurs once), replacement).
The property a change is meant to break is the prefix of its name.  Changes that the
existing suite already kills are listed at the bottom for the record (names only).
"""

SURVIVORS = {
 # ---- C01 / C05 -------------------------------------------------------------------
 'c01_halfup': ('objects.py', "rval = np.around(val)", "rval = np.floor(val + 0.5)"),
 'c05_half_away': ('objects.py', "rval = np.around(val)", "rval = np.sign(val) * np.floor(np.abs(val) + 0.5)"),
 'c01_negfrac': ('objects.py', "conv_factor = 1/(1<<-self.n_frac)", "conv_factor = 1/(1<<(-self.n_frac+1))"),
 'c05_ceil_big': ('objects.py', "            rval = np.ceil(val)", "            rval = np.where(np.abs(val) < 64, np.ceil(val), np.floor(val) + 1)"),
 'c01_int_carrier': ('objects.py', "        elif isinstance(val, (int, float, complex)):\n            vdtype = type(val)", "        elif isinstance(val, (int, float, complex)):\n            vdtype = type(val)\n            if isinstance(val, int) and self.n_frac is not None and self.n_frac < 0: val = float(val) + 0.5"),
 # ---- C02 ---------------------------------------------------------------------------
 'c02_nint_stale': ('objects.py', "        self.n_int = self.n_word - self.n_frac - (1 if self.signed else 0)\n\n        # status extended precision", "        if n_word is not None or self.n_int is None: self.n_int = self.n_word - self.n_frac - (1 if self.signed else 0)\n\n        # status extended precision"),
 # ---- C03 ---------------------------------------------------------------------------
 'c03_nw1': ('utils.py', "    if signed: \n        x = np.where", "    if signed and n_word > 1: \n        x = np.where"),
 'c03_unsigned_neg': ('objects.py', "            val = utils.wrap(new_val, self.signed, self.n_word)", "            val = utils.wrap(new_val, self.signed, self.n_word) if self.signed or np.all(new_val > -val_max - 2) else utils.wrap(new_val + 1, self.signed, self.n_word)"),
 'c03_round_after': ('objects.py', "            new_val = self._round(val * conv_factor , method=self.config.rounding)\n            new_val = self._overflow_action(new_val, val_min, val_max)", "            new_val = self._round(val * conv_factor , method=self.config.rounding) if self.config.overflow == 'saturate' else np.floor(val * conv_factor)\n            new_val = self._overflow_action(new_val, val_min, val_max)"),
 # ---- C04 ---------------------------------------------------------------------------
 'c04_any_all': ('objects.py', "        if not np.equal(val, new_val/conv_factor).all() :", "        if not np.equal(val, new_val/conv_factor).any() :"),
 'c04_reset_keep': ('objects.py', "        self.status = {\n            'overflow': False,\n            'underflow': False,\n            'inaccuracy': False,\n            'extended_prec': self.n_word is not None and self.n_word >= _n_word_max}", "        self.status['overflow'] = False\n        self.status['underflow'] = False"),
 'c04_cb_under': ('objects.py', "            self._run_callbacks('on_status_underflow')", "            self._run_callbacks('on_status_overflow')"),
 'c04_under_any': ('objects.py', "        if np.any(new_val < val_min):", "        if np.all(new_val < val_min):"),
 'c04_prop_onevar': ('functions.py', "    # propagate inaccuracy from argument\n    if x.status['inaccuracy']:\n        z.status['inaccuracy'] = True", "    # propagate inaccuracy from argument"),
 # ---- C06 ---------------------------------------------------------------------------
 'c06_nint_given': ('objects.py', "        elif n_frac is None and n_word is not None and n_int is not None:\n            n_frac = n_word - n_int - (1 if self.signed else 0)\n\n        # check if I must find the best size for val", "        elif n_frac is None and n_word is not None and n_int is not None:\n            n_frac = n_word - n_int - 1\n\n        # check if I must find the best size for val"),
 # ---- C07 ---------------------------------------------------------------------------
 'c07_signed_x': ('functions.py', "    signed = x.signed or y.signed\n    n_frac = x.n_frac + y.n_frac\n    n_word = x.n_word + y.n_word", "    signed = x.signed\n    n_frac = x.n_frac + y.n_frac\n    n_word = x.n_word + y.n_word"),
 'c07_sub_nint_mixed': ('functions.py', "    n_int = max(x.n_int, y.n_int) + 1\n    n_frac = max(x.n_frac, y.n_frac)\n    n_word = int(signed) + n_int + n_frac\n    optimal_size = (signed, n_word, n_int, n_frac)\n\n    return _function_over_two_vars(repr_func=np.subtract,", "    n_int = max(x.n_int, y.n_int) + (1 if x.signed == y.signed else 0)\n    n_frac = max(x.n_frac, y.n_frac)\n    n_word = int(signed) + n_int + n_frac\n    optimal_size = (signed, n_word, n_int, n_frac)\n\n    return _function_over_two_vars(repr_func=np.subtract,"),
 # ---- C08 ---------------------------------------------------------------------------
 'c08_cfg_y': ('functions.py', "        config = x.config\n\n    if method == 'repr' or x.scaled or n_frac is None:\n        raw = False\n        val = repr_func(x.get_val(), y.get_val(), **kwargs)", "        config = y.config\n\n    if method == 'repr' or x.scaled or n_frac is None:\n        raw = False\n        val = repr_func(x.get_val(), y.get_val(), **kwargs)"),
 # ---- C09 ---------------------------------------------------------------------------
 'c09_div_signed_x': ('functions.py', "    signed = x.signed or y.signed\n    n_int = x.n_int + y.n_frac + signed\n    n_frac = x.n_frac + y.n_int", "    signed = x.signed\n    n_int = x.n_int + y.n_frac + signed\n    n_frac = x.n_frac + y.n_int"),
 # ---- C10 ---------------------------------------------------------------------------
 'c10_like_cfg': ('objects.py', "            return  x.deepcopy().set_val(new_raw_val, raw=True)", "            y = x.deepcopy(); y.config = self.config; return y.set_val(new_raw_val, raw=True)"),
 # ---- C11 ---------------------------------------------------------------------------
 'c11_from_bin_raw': ('objects.py', "        self.set_val(utils.add_binary_prefix(val), raw=raw)", "        self.set_val(utils.add_binary_prefix(val))"),
 'c11_bin_arr_dot': ('objects.py', "                rval = [utils.binary_repr(utils.int_array(val), n_word=self.n_word, n_frac=n_frac_dot, prefix=prefix) for val in self.val]", "                rval = [utils.binary_repr(utils.int_array(val), n_word=self.n_word, n_frac=None, prefix=prefix) for val in self.val]"),
 # ---- C12 ---------------------------------------------------------------------------
 'c12_q_render': ('objects.py', "nint=self.n_word-self.n_frac,", "nint=self.n_int,"),
 'c12_complex_drop': ('objects.py', "            self.vdtype = complex if complex_flag else self.vdtype\n\n        # n_int defined:", "            pass\n\n        # n_int defined:"),
 # ---- C13 ---------------------------------------------------------------------------
 'c13_xor_xmod': ('utils.py', "    xm = int(x) % (1 << n_word)\n    ym = int(y) % (1 << n_word)\n    z = xm ^ ym", "    xm = int(x)\n    ym = int(y) % (1 << n_word)\n    z = xm ^ ym"),
 'c13_wordcheck': ('objects.py', "        if isinstance(x, Fxp):\n            if self.n_word != x.n_word:\n                raise ValueError(\"Operands dont't have same word size!\")\n            else:\n                x_val = x.val.astype(self.val.dtype) # if it doen't care data type difference\n        else:\n            x_val = x\n\n        ored_val", "        if isinstance(x, Fxp):\n            x_val = x.val.astype(self.val.dtype) # if it doen't care data type difference\n        else:\n            x_val = x\n\n        ored_val"),
 # ---- C14 ---------------------------------------------------------------------------
 'c14_minpow2_all': ('utils.py', "        while not np.any(x % 2**_pow):", "        while not np.all(x % 2**_pow):"),
 'c14_rsh_trunc': ('objects.py', "            y.val = y.val >> np.array(n, dtype=y.val.dtype)", "            y.val = (np.abs(y.val) >> np.array(n, dtype=y.val.dtype)) * np.sign(y.val)"),
 # ---- C15 ---------------------------------------------------------------------------
 'c15_sumgrow': ('functions.py', "    signed = x.signed\n    n_word = int(np.ceil(np.log2(x.size))) + x.n_word\n    n_frac = x.n_frac\n    n_int = n_word - int(signed) - n_frac\n    optimal_size = (signed, n_word, n_int, n_frac)\n\n    kwargs['axis'] = axis\n    return _function_over_one_var(repr_func=np.sum,", "    signed = x.signed\n    n_word = int(np.floor(np.log2(x.size))) + x.n_word\n    n_frac = x.n_frac\n    n_int = n_word - int(signed) - n_frac\n    optimal_size = (signed, n_word, n_int, n_frac)\n\n    kwargs['axis'] = axis\n    return _function_over_one_var(repr_func=np.sum,"),
 'c15_dot_grow': ('functions.py', "    num_of_additions = x.shape[-1]", "    num_of_additions = x.shape[0]"),
 'c15_trace_grow': ('functions.py', "    n_word = int(np.ceil(np.log2(num_of_additions))) + a.n_word", "    n_word = int(np.floor(np.log2(num_of_additions))) + a.n_word"),
 # ---- C16 ---------------------------------------------------------------------------
 'c16_le': ('objects.py', "        return self.get_val() <= x", "        return self.get_val() < x"),
 'c16_astype_int': ('objects.py', "                    val = np.asarray(raw_val // conv_factor)    # (a single `item` is a python number)", "                    val = np.asarray(np.trunc(raw_val / conv_factor))    # (a single `item` is a python number)"),
 'c16_bool': ('objects.py', "            return bool(self.get_val())", "            return bool(self.astype(int))"),
 'c16_uraw': ('objects.py', "        return np.where(val < 0, (1 << self.n_word) + val, val)", "        return np.where(val < 0, (1 << (self.n_word-1)) + val, val)"),
 # ---- C17 ---------------------------------------------------------------------------
 'c17_upper_sign': ('objects.py', "            self.upper = self.scale * self.upper + self.bias", "            self.upper = abs(self.scale) * self.upper + self.bias"),
 # ---- C18 ---------------------------------------------------------------------------
 'c18_clip_float': ('objects.py', "                val = np.clip(new_val, val_min, val_max)", "                val = np.clip(new_val.astype(float), val_min, val_max).astype(object)"),
 # ---- C19 ---------------------------------------------------------------------------
 'c19_mul_bits': ('functions.py', "        x_val, y_val = _raw_operands(x, y, x.n_word + y.n_word + 1 + max(n_frac - x.n_frac - y.n_frac, 0))", "        x_val, y_val = _raw_operands(x, y, max(x.n_word, y.n_word) + 1 + max(n_frac - x.n_frac - y.n_frac, 0))"),
 'c19_store_mag': ('objects.py', "                _val_mag = max(_val_mag, max(_val_mag, 1) * conv_factor)", "                _val_mag = max(_val_mag, 1)"),
 # ---- C20 ---------------------------------------------------------------------------
 'c20_shallow_like': ('objects.py', "            if isinstance(like, Fxp):\n                self.__dict__ = copy.deepcopy(like.__dict__)", "            if isinstance(like, Fxp):\n                self.__dict__ = copy.copy(like.__dict__)"),
 'c20_cfg_nodeep': ('objects.py', "                self.config = _config.deepcopy()", "                self.config = _config"),
 'c20_validate': ('objects.py', "        if isinstance(val, str) and val in self._op_sizing_list:\n            self._op_sizing = val", "        if isinstance(val, str):\n            self._op_sizing = val"),
}

# Tried and KILLED by the existing suite (so not usable to demonstrate detection):
KILLED_BY_SUITE = [
 'floor->trunc', 'wrap sign test <=', 'wrap threshold > n_word_max', 'wrap abs() for unsigned',
 'wrap via int32', 'overflow flag >=', 'two-var inaccuracy propagation removed / y ignored',
 'size inference: drop negative msb correction (min or max)', 'n_word-given cap removed',
 'array min taken from first element', 'unsigned +1 integer bit', 'add growth +1 removed',
 'add n_frac = x.n_frac', 'truediv/floordiv n_int without +signed', 'mod via fmod', 'mod n_int = min',
 'truediv rounded to nearest', 'hex width n//4', 'hex of arrays unpadded', 'hex nibble sign-extension',
 'binary point for n_frac==0 / ==n_word', 'strhex zero padding removed', 'strbin frac padding off by one',
 'base_repr abs()', 'Q parse adds sign bit', 'casefold removed', 'or/and operand modulo dropped',
 'xor re-signing skipped', 'invert re-signing only for n_frac==0', 'and abs() cast',
 'rshift expand n > min_pow2+1', 'lshift growth without +signed', 'scale/bias order swapped',
 'lower bias inside scale', 'astype affine order', 'precision unscaled', 'extended_prec threshold >',
 'set_val object threshold >', 'fxp-from-fxp floor shift', 'float32 intermediate', 'clip side flip for huge',
]

# Survive the suite but are NOT usable: behaviourally equivalent, or differ only outside
# the property's stated domain (analysis in DESIGN.md section 6):
EQUIVALENT_OR_OUT_OF_DOMAIN = [
 "c19_rawbits_le: `n_bits < _n_word_max` -> `<=` in functions._raw_operands: the bit bound passed by add/sub/mul has one spare bit, so int64 still "
 "holds every aligned operand and result when n_bits == 64 (no observable change)",
 "c17_recip: `val / self.scale` -> `val * (1 / self.scale)`: for every admitted case the exact quotient (v-b)/s is a representable double, and "
 "fl(x * fl(1/s)) = x/s then (error of fl(1/s) is below half an ulp of the quotient), so the stored codes are identical inside C17's domain",
 "c06_fracloop: `r_i >= 0.0` -> `> 0.0` (loop exits anyway when r_i == 0)",
 "c14_lsh_half: log2(|v|+0.5) -> log2(|v|+0.25) (same ceil for every integer |v| >= 1)",
 "c10_resize_float: resize re-stores the float value (differs only above 53 bits; C10 domain is <= 52)",
]
