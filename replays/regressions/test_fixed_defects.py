"""Plain pytest replays (no explorer, no reference model) of the concrete inputs / histories behind every defect the checks found.
Each test fails on the tree before the corresponding `fix:` commit and passes after it; D12 is the one known, unrepaired finding.

    cd /verif/replays/regressions && /venv/bin/python -m pytest -q -p no:cacheprovider test_fixed_defects.py
"""
import os, sys
sys.path.insert(0, os.environ.get('FXPMATH_VERIF_REPO', '/repo'))
import numpy as np
import pytest
from fxpmath import Fxp, fxp_like, fxp_sum
import fxpmath as fx


def test_D1_equal_keeps_shape():
    t = Fxp([0, 0, 0], True, 8, 2)
    t.equal(Fxp([1, 2, 3], True, 8, 4))
    assert t.shape == (3,) and t.val.tolist() == [4, 8, 12]


def test_D2_get_dtype_notation():
    x = Fxp(1.5, True, 8, 4)
    assert (x.get_dtype('Q'), x.get_dtype('fxp'), x.dtype) == ('Q4.4', 'fxp-s8/4', 'fxp-s8/4')


def test_D3_sizes_from_dtype_negative_and_complex():
    assert fxp_sum(Fxp([4, 8], True, 8, -2), dtype='fxp-s8/-2').dtype == 'fxp-s8/-2'
    assert fxp_sum(Fxp([1, 2], True, 8, 0), dtype='fxp-s8/2-complex').n_frac == 2


def test_D4_reset_keeps_extended_prec():
    x = Fxp(1, True, 70, 2)
    x.reset()
    assert x.status['extended_prec'] is True and x.status['overflow'] is False


def test_D5_like_is_independent_of_template():
    T = Fxp(None, True, 8, 2)
    a = Fxp(1.3).like(T)
    b = fxp_like(T, 1.3)
    assert not T.status['inaccuracy'] and a.config is not T.config and b.status is not T.status


def test_D6_containers_untouched_and_tuples_accepted():
    l = ['0b0101']
    Fxp(l, True, 8, 0)
    assert l == ['0b0101']
    assert Fxp((1.0, 2.0), True, 8, 2).val.tolist() == [4, 8]


def test_D7_big_python_ints_saturate_and_wrap_exactly():
    x = Fxp(2 ** 60, True, 16, 8)
    assert int(x.val) == 32767 and x.status['overflow']
    assert int(Fxp(2 ** 62, True, 16, 1).val) == 32767
    assert int(Fxp(2 ** 64 + 3, True, 16, 0, overflow='wrap').val) == 3
    assert int(Fxp(-2 ** 63 - 1, True, 16, 0).val) == -32768


def test_D8_add_mul_beyond_int64():
    a, b = Fxp(2 ** 40 - 1, True, 41, 0), Fxp(2 ** 61 + 1, True, 63, 61, raw=True)
    assert int((a + b).val) == (2 ** 40 - 1) * 2 ** 61 + 2 ** 61 + 1
    x, y = Fxp(-2, True, 2, 0), Fxp(1, False, 52, 52, raw=True)
    assert int((x - y).val) == -2 * 2 ** 52 - 1
    u = Fxp(2 ** 32 - 1, False, 32, 0)
    assert int((u * u).val) == (2 ** 32 - 1) ** 2


def test_D9_2d_bin_output_parses_back():
    x = Fxp([[1, -2], [3, -4]], True, 8, 0)
    assert Fxp(x.bin(prefix='0b'), True, 8, 0).val.tolist() == [[1, -2], [3, -4]]
    assert Fxp(x.hex(), True, 8, 0).val.tolist() == [[1, -2], [3, -4]]


def test_D10_u64_array_straddling_2_63():
    a, b = 947754779712301191, 17337357318701640010
    for ovf in ('saturate', 'wrap'):
        assert Fxp(np.array([a, b], dtype=object), False, 64, 0, raw=True, overflow=ovf).val.tolist() == [a, b]


def test_D13_T_and_flatten_do_not_share_config():
    x = Fxp([[1.5, 2.25], [3.0, -1.0]], True, 8, 2)
    for y in (x.T, x.flatten(), x.ravel()):
        assert y.config is not x.config and y.status is not x.status


def test_D14_conversion_from_integer_valued_source_rounds_with_destination_mode():
    x = Fxp(3, True, 8, 0)
    t = Fxp(None, True, 8, -1, rounding='around')
    assert [int(Fxp(x, like=t).val), int(x.like(t).val), int(Fxp(x, True, 8, -1, rounding='around').val), int(t(x).val)] == [2, 2, 2, 2]


def test_D15_raw_write_keeps_scaling():
    x = Fxp(7.0, True, 8, 2, scale=2, bias=1)
    x.set_val(12, raw=True)
    assert x() == 7.0
    x.resize(True, 8, 2)
    assert x.upper == 2 * 127 / 4 + 1


def test_D16_inference_beyond_64_bits_rounds_instead_of_saturating():
    x = Fxp([0.3, 512.5])
    assert x.n_word <= 64 and not x.status['overflow'] and abs(x()[1] - 512.5) < x.precision


def test_D17_formats_with_n_frac_above_63():
    z = Fxp(None, True, 7, 3)
    z.resize(dtype='fxp-u58/66')
    assert z.dtype == 'fxp-u58/66'
    assert fxp_sum(Fxp([0, 0], True, 8, 0), dtype='fxp-u58/66').dtype == 'fxp-u58/66'


def test_D18_bitwise_on_wide_arrays():
    x = Fxp(np.array([-2 ** 62, 5]), True, 63, 0, raw=True)
    assert (~x).val.tolist() == [2 ** 62 - 1, -6]
    y = Fxp(np.array([-6148914691236517206, 1], dtype=object), True, 64, 0, raw=True)
    assert (y ^ Fxp(-2 ** 63, True, 64, 0, raw=True)).val.tolist() == [3074457345618258602, -2 ** 63 + 1]


def test_D19_unsigned_scaled_readback_with_negative_bias():
    x = Fxp(np.array([-1, 0], dtype=np.int64), signed=False, n_word=1, n_frac=0, scale=1, bias=-1)
    assert x().tolist() == [-1, 0]


def test_D20_bin_frac_dot_on_wide_arrays():
    assert Fxp(np.array([-2 ** 64, 7], dtype=object), True, 65, 0, raw=True).bin(frac_dot=True)[1].endswith('0111.')


def test_D21_D22_wide_strings_parse_back():
    x = Fxp(np.array([-4611686018427387903, 1]), True, 63, 1, raw=True)
    assert Fxp(np.array(x.bin(prefix='0b')), True, 63, 1, raw=True).val.tolist() == [-4611686018427387903, 1]
    u = Fxp(np.array([144115188075855871, 2 ** 63 + 1], dtype=object), False, 64, 0, raw=True)
    assert Fxp(u.bin(prefix='0b'), False, 64, 0, raw=True).val.tolist() == [144115188075855871, 2 ** 63 + 1]


def test_D23_list_of_ints_in_the_uint64_band_saturates():
    x = Fxp([2 ** 63, 2 ** 63], True, 1, 1)
    assert x.val.tolist() == [0, 0] and x.status['overflow']


def test_D24_astype_int_item():
    assert Fxp([1.5, -2.25], True, 8, 2).astype(int, item=1) == -3


def test_D25_integer_born_object_resized_reads_fractions():
    x = Fxp(3, True, 8, 0)
    x.resize(n_frac=2)
    x.set_val(5, raw=True)
    assert x.get_val() == 1.25 and float(x) == 1.25


def test_D26_raw_product_into_a_far_out_format_saturates_on_its_own_side():
    z = fx.mul(Fxp(2047, True, 12, 0), Fxp(2047, True, 12, 0), out=Fxp(0, True, 12, 41))
    assert int(z.val) == 2047 and z.status['overflow']


def test_D27_raw_modulo_with_far_apart_fractions():
    z = fx.mod(Fxp(357913941, False, 30, 0, raw=True), Fxp(3, False, 40, 36, raw=True))
    assert int(z.val) == 0


def test_D28_bitwise_with_array_second_operand():
    x = Fxp(np.array([5, 6, 7]), True, 8, 0, raw=True)
    y = Fxp(np.array([3, 4, 5]), True, 8, 0, raw=True)
    assert (x & y).val.tolist() == [1, 4, 5] and (x | y).val.tolist() == [7, 6, 7] and (x ^ y).val.tolist() == [6, 2, 2]


def test_D29_conversion_from_fxp_saturates_beyond_64_bits():
    a = Fxp(-32768, True, 16, 0)
    t = Fxp(0, True, 52, 52)
    lo = -2 ** 51
    assert int(Fxp(a, True, 52, 52).val) == lo and int(a.like(t).val) == lo and int(t.equal(a).val) == lo
    arr = Fxp([2 ** 30, -5], True, 32, 0)
    d = Fxp([0, 0], True, 50, 40)
    d[1] = arr[0]
    assert d.val.tolist() == [0, 2 ** 49 - 1]


def test_D30_astype_int_with_63_fraction_bits():
    x = Fxp(np.zeros(2, dtype=np.int64), True, 63, 0)
    x.resize(n_frac=63)
    assert x.dtype == 'fxp-s63/63'
    assert Fxp([0.0, -2.0 ** -50], True, 16, 63).astype(int).tolist() == [0, -1]


def test_D31_array_of_decimal_strings_rounds_like_a_list():
    x = Fxp(np.array(['2.7', '3']), True, 16, 0, rounding='around')
    assert x.val.tolist() == [3, 3] and x.status['inaccuracy']


def test_D32_numpy_functions_on_subclass_instances_keep_the_format():
    class S(Fxp):
        pass
    z = np.add(S([1, -3], True, 8, 2, raw=True), S([1, 3], False, 6, 1, raw=True))
    assert z.dtype == 'fxp-s9/2' and z.val.tolist() == [3, 3]


def test_D33_float_elements_next_to_a_huge_one_are_rounded_by_mode():
    assert Fxp([1e30, 0.75, 1.5, -0.75], True, 8, 0, rounding='around').val.tolist() == [127, 1, 2, -1]
    assert Fxp([0.75, 1.5, -0.75], True, 64, 0, rounding='around').val.tolist() == [1, 2, -1]
    assert int(Fxp(-1e300, True, 31, 31).val) == -2 ** 30          # scaled value overflows to infinity: still saturates


def test_D34_uraw_of_signed_63_bit_words():
    assert Fxp(np.array([-(1 << 62), -1]), True, 63, 0, raw=True).uraw().tolist() == [1 << 62, (1 << 63) - 1]


def test_D35_hex_with_a_configured_binary_prefix():
    x = Fxp([-3, 5], True, 8, 2, raw=True)
    x.config.bin_prefix = 'b'
    assert x.hex() == ['0xFD', '0x05'] and x.bin() == ['b11111101', 'b00000101']


def test_D36_subclass_instances_interoperate_with_plain_fxp():
    class S(Fxp):
        pass
    assert S([0.5, 1.0], True, 8, 4).like(Fxp(None, True, 6, 2)).dtype == 'fxp-s6/2'
    assert isinstance(np.add(S([0.5, 1.0], True, 8, 4, array_output_type='array'), Fxp([0.25, 0.5], True, 6, 2)), np.ndarray)


@pytest.mark.xfail(reason='D12: known finding, see /verif/known_findings.json', strict=True)
def test_D12_product_over_53_bits_narrowed_under_wrap():
    x = Fxp(-2 ** 63, True, 64, 32, raw=True, overflow='wrap', op_sizing='same')
    y = Fxp(-2 ** 63 + 1, True, 64, 32, raw=True, overflow='wrap')
    assert int((x * y).val) == -2 ** 31
