"""Import fxpmath from the target working tree (default /repo) and nothing else."""
import os, sys, warnings

GUARD = 'FXPMATH_VERIF'          # hook guard named in MANIFEST.hooks (no hooks are needed)
_loaded = None


def target_repo():
    return os.path.realpath(os.environ.get('FXPMATH_VERIF_REPO', '/repo'))


def load():
    """Insert the target tree first on sys.path, import fxpmath, assert where it came from."""
    global _loaded
    if _loaded is not None:
        return _loaded
    repo = target_repo()
    sys.dont_write_bytecode = True
    os.environ.setdefault(GUARD, '1')
    if repo in sys.path:
        sys.path.remove(repo)
    sys.path.insert(0, repo)
    warnings.filterwarnings('ignore')
    import numpy as np
    np.seterr(all='ignore')
    import fxpmath
    got = os.path.realpath(fxpmath.__file__)
    if not got.startswith(repo + os.sep):
        sys.stderr.write('HARNESS ERROR: fxpmath imported from %s, expected under %s\n' % (got, repo))
        sys.exit(2)
    _loaded = fxpmath
    return fxpmath
