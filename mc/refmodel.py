"""Reference model: exact integer / Fraction arithmetic only.  No NumPy, no fxpmath.

A real value is a *dyadic rational* held as a pair (num, s) meaning num / 2**s with s >= 0
(every float, every int and every fixed-point value is one), or a fractions.Fraction.
Codes are Python ints.  A format is Fmt(signed, n_word, n_frac).
"""
from fractions import Fraction
import math

ROUNDINGS = ('trunc', 'fix', 'floor', 'ceil', 'around')
OVERFLOWS = ('saturate', 'wrap')
MODES = tuple((r, o) for r in ROUNDINGS for o in OVERFLOWS)


class Fmt(tuple):
    """(signed, n_word, n_frac)"""
    __slots__ = ()

    def __new__(cls, signed, n_word, n_frac):
        return tuple.__new__(cls, (bool(signed), int(n_word), int(n_frac)))

    def __getnewargs__(self):          # tuple subclasses pickle through __new__(cls, *args)
        return (self[0], self[1], self[2])

    signed = property(lambda s: s[0])
    n_word = property(lambda s: s[1])
    n_frac = property(lambda s: s[2])

    @property
    def lo(self):
        return -(1 << (self[1] - 1)) if self[0] else 0

    @property
    def hi(self):
        return (1 << (self[1] - 1)) - 1 if self[0] else (1 << self[1]) - 1

    @property
    def span(self):
        return 1 << self[1]

    @property
    def n_int(self):
        return self[1] - self[2] - (1 if self[0] else 0)

    @property
    def dtype(self):
        return 'fxp-%s%d/%d' % ('s' if self[0] else 'u', self[1], self[2])

    def value(self, code):
        """exact value of a code as Fraction"""
        return Fraction(code) * Fraction(2) ** (-self[2])

    def fvalue(self, code):
        """the value of a code as a float (exact whenever it fits a double)"""
        return math.ldexp(code, -self[2])


# ---------------------------------------------------------------- dyadic helpers
def dy(x):
    """(num, s) with x == num / 2**s, s >= 0, for int / float / Fraction with power-of-two denominator"""
    if isinstance(x, tuple):
        return x
    if isinstance(x, int):
        return (x, 0)
    if isinstance(x, float):
        n, d = x.as_integer_ratio()
    else:
        n, d = x.numerator, x.denominator
    s = d.bit_length() - 1
    if (1 << s) != d:
        raise ValueError('not dyadic: %r' % (x,))
    return (n, s)


def dy_frac(d):
    return Fraction(d[0], 1 << d[1])


def dy_float(d):
    """float(num/2**s) -- exact only if representable; callers check with is_exact_double"""
    return math.ldexp(d[0], -d[1]) if abs(d[0]) < (1 << 1000) else float(Fraction(d[0], 1 << d[1]))


def is_exact_double(d):
    try:
        f = dy_float(d)
    except OverflowError:
        return False
    if math.isinf(f) or math.isnan(f):
        return False
    n, den = f.as_integer_ratio()
    return n * (1 << d[1]) == d[0] * den


# ---------------------------------------------------------------- rounding / overflow
def round_dy(num, s, mode):
    """round num / 2**s (s >= 0) to an integer with the given rule"""
    if s == 0:
        return num
    fl = num >> s                      # floor
    rem = num - (fl << s)              # 0 <= rem < 2**s
    if rem == 0:
        return fl
    if mode == 'floor':
        return fl
    if mode == 'ceil':
        return fl + 1
    if mode in ('trunc', 'fix'):
        return fl if num >= 0 else fl + 1
    if mode == 'around':
        half = 1 << (s - 1)
        if rem < half:
            return fl
        if rem > half:
            return fl + 1
        return fl if fl % 2 == 0 else fl + 1
    raise ValueError(mode)


def overflow_code(c, fmt, mode):
    lo, hi = fmt.lo, fmt.hi
    if lo <= c <= hi:
        return c
    if mode == 'saturate':
        return hi if c > hi else lo
    if mode == 'wrap':
        return (c - lo) % fmt.span + lo
    raise ValueError(mode)


def scaled(d, n_frac):
    """(num, s) of value*2**n_frac"""
    num, s = d
    if n_frac >= 0:
        num <<= n_frac
    else:
        s += -n_frac
    return num, s


def quantize(d, fmt, rounding, overflow):
    """d: dyadic value.  Returns (code, over, under, inexact, rounded)"""
    num, s = scaled(dy(d), fmt.n_frac)
    r = round_dy(num, s, rounding)
    c = overflow_code(r, fmt, overflow)
    inexact = (c << s) != num
    return c, r > fmt.hi, r < fmt.lo, inexact, r


def quantize_code(code_num, s, fmt, rounding, overflow):
    """quantize an already scaled value code_num/2**s (e.g. raw writes, conversions)"""
    r = round_dy(code_num, s, rounding)
    c = overflow_code(r, fmt, overflow)
    return c, r > fmt.hi, r < fmt.lo, (c << s) != code_num, r


# ---------------------------------------------------------------- strings
def bin_image(code, n_word):
    return format(code % (1 << n_word), '0%db' % n_word)


def hex_image(code, n_word):
    return format(code % (1 << n_word), '0%dX' % ((n_word + 3) // 4))


def sign_magnitude(code, base):
    digs = '0123456789ABCDEFGHIJKLMNOPQRSTUVWXYZ'
    n = abs(code)
    if n == 0:
        return '0'
    out = []
    while n:
        n, r = divmod(n, base)
        out.append(digs[r])
    return ('-' if code < 0 else '') + ''.join(reversed(out))


def with_point(bits, n_frac):
    """binary point n_frac digits from the right (0 <= n_frac <= len(bits))"""
    if n_frac == 0:
        return bits + '.'
    return bits[:len(bits) - n_frac] + '.' + bits[len(bits) - n_frac:]


# ---------------------------------------------------------------- size inference (definition level)
def min_frac_bits(ds):
    """fewest fraction bits making every dyadic value an integer multiple of 2**-f (f >= 0)"""
    f = 0
    for num, s in ds:
        if num == 0:
            continue
        tz = (num & -num).bit_length() - 1
        f = max(f, s - tz)
    return max(f, 0)


def fits(code, signed, n_word):
    if signed:
        return -(1 << (n_word - 1)) <= code <= (1 << (n_word - 1)) - 1 if n_word >= 1 else False
    return 0 <= code <= (1 << n_word) - 1


def min_word(codes, signed, n_frac):
    """fewest word bits holding all codes with n_int = n_word - n_frac - sign >= 0"""
    sign = 1 if signed else 0
    n_word = max(n_frac + sign, sign, 0)
    while not all(fits(c, signed, n_word) for c in codes):
        n_word += 1
    return n_word


# ---------------------------------------------------------------- growth rules (from the statements)
def add_fmt(x, y):
    signed = x.signed or y.signed
    n_int = max(x.n_int, y.n_int) + 1
    n_frac = max(x.n_frac, y.n_frac)
    return Fmt(signed, int(signed) + n_int + n_frac, n_frac)


def mul_fmt(x, y):
    return Fmt(x.signed or y.signed, x.n_word + y.n_word, x.n_frac + y.n_frac)
