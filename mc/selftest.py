"""setup_cmd: offline sanity check of the framework (imports, target tree, schemas, reference model)."""
import json, os, subprocess, sys

VERIF = os.path.dirname(os.path.dirname(os.path.abspath(__file__)))


def main():
    os.chdir(VERIF)
    from . import loader
    fx = loader.load()
    from . import refmodel as rm
    f = rm.Fmt(True, 4, 1)
    assert (f.lo, f.hi, f.n_int) == (-8, 7, 2)
    assert rm.quantize((5, 2), f, 'around', 'saturate')[0] == 2          # 1.25*2 = 2.5 -> 2 (even)
    assert rm.quantize((7, 2), f, 'around', 'saturate')[0] == 4          # 1.75*2 = 3.5 -> 4
    assert rm.quantize((-9, 0), f, 'trunc', 'wrap')[0] == -2             # -18 wraps to -2
    assert rm.quantize((100, 0), f, 'floor', 'saturate')[:3] == (7, True, False)
    json.load(open('MANIFEST.json'))
    json.load(open('known_findings.json'))
    for l in open('properties.jsonl'):
        json.loads(l)
    os.makedirs('evidence', exist_ok=True)
    os.makedirs(os.path.join('replays', 'run'), exist_ok=True)
    # optional: validate MANIFEST and existing evidence with jsonschema from the tooling venv
    vt = '/opt/veriftools/pyvenv/bin/python'
    if os.path.exists(vt) and os.path.exists('/root/.vp/MANIFEST.schema.json'):
        code = ("import json,jsonschema,glob;"
                "jsonschema.validate(json.load(open('MANIFEST.json')), json.load(open('/root/.vp/MANIFEST.schema.json')));"
                "s=json.load(open('/root/.vp/EVIDENCE.schema.json'));"
                "[jsonschema.validate(json.load(open(f)), s) for f in glob.glob('evidence/C*.json')];print('schemas ok')")
        r = subprocess.run([vt, '-c', code], capture_output=True, text=True)
        sys.stdout.write(r.stdout)
        if r.returncode != 0:
            sys.stderr.write(r.stderr[-2000:])
            sys.exit(1)
    print('selftest ok: fxpmath from %s' % os.path.dirname(fx.__file__))


if __name__ == '__main__':
    main()
