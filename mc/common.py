"""Helpers shared by the property harnesses: observations of real objects, carriers, routes."""
import math
from fractions import Fraction
import numpy as np
from . import loader
from .refmodel import Fmt, dy, dy_float, dy_frac, is_exact_double

fx = loader.load()
Fxp = fx.Fxp
Config = fx.Config


def reset_class_state():
    """class-level state an event may have set"""
    Fxp.template = None
    Config.template = None


def codes(x):
    """stored codes as a flat list of Python ints (exact)"""
    v = x.val
    if isinstance(v, np.ndarray):
        return [int(c) for c in v.ravel().tolist()]
    return [int(v)]


def fmt_of(x):
    return Fmt(x.signed, x.n_word, x.n_frac)


def flags(x):
    s = x.status
    return (bool(s.get('overflow')), bool(s.get('underflow')), bool(s.get('inaccuracy')))


def obs(x):
    """canonical observation of an Fxp (hashable)"""
    return (bool(x.signed), int(x.n_word), int(x.n_frac), tuple(codes(x)), tuple(np.shape(x.val)), flags(x))


def mk(val, fmt, rounding='trunc', overflow='saturate', **kw):
    return Fxp(val, signed=fmt[0], n_word=fmt[1], n_frac=fmt[2], rounding=rounding, overflow=overflow, **kw)


def exact_values(x):
    """values read back through get_val() as exact Fractions (flat list)"""
    g = np.asarray(x.get_val())
    return [Fraction(v) if not isinstance(v, float) else Fraction(v) for v in g.ravel().tolist()]


class Recorder:
    """callback object recording every notification"""

    def __init__(self):
        self.log = []

    def on_value_change(self, obj, logs=None):
        self.log.append('change')

    def on_status_overflow(self, obj, logs=None):
        self.log.append('overflow')

    def on_status_underflow(self, obj, logs=None):
        self.log.append('underflow')

    def on_status_inaccuracy(self, obj, logs=None):
        self.log.append('inaccuracy')

    def __deepcopy__(self, memo):
        r = Recorder()
        r.log = list(self.log)
        return r


# ------------------------------------------------------------------ carriers
# A carrier turns an exact dyadic value into the Python object handed to the library.  It returns
# None when it cannot represent the value exactly (then the (value, carrier) pair is outside the space).
NP_FLOATS = ('float16', 'float32', 'float64')
NP_INTS = ('int8', 'int16', 'int32', 'int64', 'uint8', 'uint16', 'uint32', 'uint64')


def _np_exact(d, dtype):
    fr = dy_frac(d)
    t = np.dtype(dtype)
    if t.kind in 'iu':
        if fr.denominator != 1:
            return None
        info = np.iinfo(t)
        if not (info.min <= fr.numerator <= info.max):
            return None
        return t.type(fr.numerator)
    if not is_exact_double(d):
        return None
    v = t.type(dy_float(d))
    if not np.isfinite(v) or Fraction(float(v)) != fr:
        return None
    return v


def decimal_string(d):
    """plain exact decimal expansion of a dyadic value, or None if longer than 40 digits"""
    num, s = d
    neg = num < 0
    num = abs(num)
    ip, fp = num >> s, num & ((1 << s) - 1)
    if s == 0:
        return ('-' if neg else '') + str(ip)
    digits = str(fp * 5 ** s).rjust(s, '0').rstrip('0')
    if len(digits) > 40:
        return None
    if digits == '':
        return ('-' if neg else '') + str(ip)
    return ('-' if neg else '') + str(ip) + '.' + digits


def carrier_names():
    names = ['int', 'float']
    names += ['np.' + t for t in NP_FLOATS + NP_INTS]
    names += ['arr0.' + t for t in NP_FLOATS + NP_INTS]
    names += ['arr1.' + t for t in ('float32', 'float64', 'int16', 'int64', 'uint8')]
    names += ['arr2.float64', 'arr2.int32']
    names += ['list', 'nlist', 'tuple', 'ntuple', 'ltuple', 'decstr', 'lstr', 'tstr', 'ndstr', 'nd0str']
    return names


def carry(d, name):
    """-> (object to hand to the library, shape kind) or None"""
    fr = dy_frac(d)
    if name == 'int':
        return int(fr) if fr.denominator == 1 else None
    if name == 'float':
        return dy_float(d) if is_exact_double(d) else None
    if name.startswith('np.'):
        return _np_exact(d, name[3:])
    if name.startswith('arr'):
        k, t = name[3], name[5:]
        v = _np_exact(d, t)
        if v is None:
            return None
        if k == '0':
            return np.array(v)
        if k == '1':
            return np.array([v, v], dtype=t)
        return np.array([[v, v], [v, v]], dtype=t)
    base = int(fr) if fr.denominator == 1 else (dy_float(d) if is_exact_double(d) else None)
    if base is None:
        return None
    if name == 'list':
        return [base, base]
    if name == 'nlist':
        return [[base, base], [base, base]]
    if name == 'tuple':
        return (base, base)
    if name == 'ntuple':
        return ((base, base), (base, base))
    if name == 'ltuple':
        return [(base, base), (base, base)]
    if name in ('decstr', 'lstr', 'tstr', 'ndstr', 'nd0str'):
        s = decimal_string(d)
        if s is None:
            return None
        return {'decstr': s, 'lstr': [s, s], 'tstr': (s, s), 'ndstr': np.array([s, s]), 'nd0str': np.array(s)}[name]
    raise ValueError(name)


ROUTES = ('ctor', 'call', 'set_val', 'setitem')
# the same store into a destination that has a history (see age_destination)
HROUTES = ('set_val@copy64', 'call@copy_resized', 'setitem@view_resized', 'set_val@resized_back', 'call@used', 'setitem@used', 'set_val@huge', 'call@huge',
           'setitem@huge')


def age_destination(x, fmt, hist):
    """things done to / around a live object before a value is stored into it; none of them may change how it stores"""
    arr = isinstance(x.val, np.ndarray) and x.val.ndim >= 1
    if hist == 'copy64':                     # a shallow copy of it is widened to 64 bits
        y = x.copy()
        y.resize(n_word=64)
    elif hist == 'copy_resized':
        y = x.copy()
        y.resize(n_word=fmt[1] + 9, n_frac=fmt[2] + 3)
    elif hist == 'view_resized':             # a view of it is widened and written
        if arr:
            y = x[0:1]
            y.resize(n_word=fmt[1] + 9)
            y.set_val(0, raw=True, index=(0,) * y.val.ndim)
        else:
            y = x.deepcopy()
            y.resize(n_word=fmt[1] + 9)
    elif hist == 'resized_back':             # it was itself wider (64 bits) for a while
        x.resize(n_word=64)
        x.resize(n_word=fmt[1])
    elif hist == 'used':
        warm(x)
    elif hist == 'huge':                     # it has stored floats far beyond 2^64 (and a huge Python int) before: flags stay raised
        x.config.overflow, ov = 'saturate', x.config.overflow
        x.set_val((np.zeros(np.shape(x.val)) + 1e30) if arr else 1e30)
        x.set_val((np.zeros(np.shape(x.val)) - 1e300) if arr else -1e300)
        x.set_val(np.full(np.shape(x.val), 2 ** 200, dtype=object) if arr else 2 ** 200)
        x.config.overflow = ov
    else:
        raise ValueError(hist)



def store(route, value, fmt, rounding, overflow, callbacks=None):
    """store `value` by `route` into a fresh object of the format; returns the object written to and,
    for setitem, the index that was written (None = whole object)"""
    kw = {}
    if callbacks is not None:
        kw['callbacks'] = callbacks
    if route == 'ctor':
        return mk(value, fmt, rounding, overflow, **kw), None
    shape = np.shape(value) if not isinstance(value, str) else ()
    if isinstance(value, (list, tuple)):
        shape = np.shape(np.array(value))
    hist = None
    if '@' in route:
        route, hist = route.split('@')
    if route in ('call', 'set_val'):
        x = mk(np.zeros(shape, dtype=int) if shape else 0, fmt, rounding, overflow, **kw)
        if hist:
            age_destination(x, fmt, hist)
        if callbacks is not None:
            for c in callbacks:
                del c.log[:]
        if route == 'call':
            x(value)
        else:
            x.set_val(value)
        return x, None
    if route == 'setitem':
        x = mk(np.zeros((2,) + tuple(shape), dtype=int), fmt, rounding, overflow, **kw)
        if hist:
            age_destination(x, fmt, hist)
        if callbacks is not None:
            for c in callbacks:
                del c.log[:]
        x[1] = value
        return x, 1
    raise ValueError(route)


def build(f, cs, shape, by='raw', **kw):
    """an object of format f holding the codes cs (list) in `shape` (tuple, or () for a scalar from cs[0]).
    by='raw': codes written with raw=True (value type unset); by='value': built from the exact values - Python/NumPy ints
    when n_frac <= 0 (the object then carries an integer value type), floats otherwise."""
    if not by.startswith('env:template'):
        Fxp.template = None                     # a class-level template set for the previous case ends here
    if by.startswith('env:'):
        return build_env(f, cs, shape, by[4:], **kw)
    if by in AGED:
        return build_aged(f, cs, shape, by, **kw)
    if by == 'raw':
        arr = np.array(cs, dtype=np.int64).reshape(shape) if shape != () else cs[0]
        return Fxp(arr, f[0], f[1], f[2], raw=True, **kw)
    if f[2] <= 0:
        vals = [c << -f[2] for c in cs]
        arr = np.array(vals, dtype=np.int64).reshape(shape) if shape != () else vals[0]
    else:
        vals = [math.ldexp(c, -f[2]) for c in cs]
        arr = np.array(vals, dtype=np.float64).reshape(shape) if shape != () else vals[0]
    x = Fxp(arr, f[0], f[1], f[2], **kw)
    if codes(x) != [int(c) for c in cs] or flags(x) != (False, False, False):
        raise AssertionError('build by value did not give the codes')
    return x


# ---------------------------------------------------------------------------------------------------------------------
# Aged objects: the same observable object reached through a history instead of one constructor call.
# The deciding comparison is differential - an aged object must behave exactly like the fresh one with the same
# format, codes, shape and configuration - so no expected value is written by hand.

def _quiet(fn):
    try:
        with np.errstate(all='ignore'):
            return fn()
    except Exception:
        return None


def warm(x):
    """Every public read / render / operator that returns a new object, applied to a live object.  None of them may
    change x; each may fill a cache inside x (or at module level).  Exceptions are ignored: an operation the library
    does not support for this format is simply not part of the history."""
    arr = isinstance(x.val, np.ndarray) and x.val.ndim >= 1
    for fn in (lambda: x.get_val(), lambda: x.astype(float), lambda: x.astype(int), lambda: x.dtype,
               lambda: x.get_dtype('fxp'), lambda: x.get_dtype('Q'), lambda: x.bin(), lambda: x.hex(),
               lambda: x.bin(frac_dot=True), lambda: x.raw(), lambda: x.uraw(), lambda: np.asarray(x),
               lambda: str(x), lambda: repr(x), lambda: x.info(verbose=0) if False else None,
               lambda: x & x, lambda: x | 1, lambda: x ^ x, lambda: ~x, lambda: x + x, lambda: x - x, lambda: x * x,
               lambda: 3 - x, lambda: x * 3, lambda: x + 0.5, lambda: x >> 1, lambda: x << 1, lambda: -x, lambda: abs(x),
               lambda: x < x, lambda: x == 0, lambda: x >= 1, lambda: x // 3, lambda: x % 3, lambda: x / 3,
               lambda: x.upper, lambda: x.lower, lambda: x.precision, lambda: x.get_status(),
               lambda: Fxp(x), lambda: Fxp(None, like=x), lambda: x.like(x), lambda: x.deepcopy(),
               lambda: np.sum(x), lambda: np.max(x), lambda: x.sum(), lambda: x.T, lambda: x.flatten(),
               lambda: fx.add(x, x), lambda: fx.mul(x, x), lambda: fx.sub(x, x)):
        _quiet(fn)
    if arr:
        for fn in (lambda: x[0], lambda: x[-1], lambda: x[0:1], lambda: x[::-1], lambda: np.cumsum(x),
                   lambda: np.dot(x, x) if x.val.ndim == 1 else np.matmul(x, x.T), lambda: np.sort(x),
                   lambda: np.clip(x, 0, 1), lambda: np.transpose(x), lambda: x.astype(float, index=0),
                   lambda: x.get_val(index=0), lambda: x.bin()[0], lambda: x.reshape(x.val.shape)):
            _quiet(fn)


def _other_codes(f, cs):
    """codes different from cs but inside the format (the state before the history's writes)"""
    lo, hi = Fmt(*f).lo, Fmt(*f).hi
    return [hi if c != hi else lo for c in cs]


AGED = ('aged_write', 'aged_view', 'aged_sibling', 'aged_derived', 'aged_resized', 'aged_resigned')


def build_aged(f, cs, shape, how, **kw):
    """the object build(f, cs, shape, 'raw') reached through the history `how`:
      aged_write    object with other codes, every read/operator applied once, then each element written in place
                    (set_val(index=) keeps the buffer), reads applied again in between
      aged_view     a slice view of a larger parent, both read/operated on, then the elements written through the parent
      aged_sibling  the object itself after shallow copies of it were resized / rewritten and its views were written back
      aged_derived  the codes in the transposed / 2-d / longer arrangement, operated on, then derived (T / flatten / element read)
      aged_resized  born from integers in an n_frac=0 format of the other signedness, resized by dtype string, then written
      aged_resigned the same, but born with the SAME word length (state kept per word length must follow the signedness too)"""
    cs = [int(c) for c in cs]
    n = len(cs)
    if how == 'aged_write' or (how == 'aged_view' and shape == ()):
        x = build(f, _other_codes(f, cs), shape, 'raw', **kw)
        warm(x)
        if shape == ():
            x.set_val(cs[0], raw=True)
        else:
            for i, idx in enumerate(np.ndindex(*shape)):
                x.set_val(cs[i], raw=True, index=idx)
                if i == 0:
                    warm(x)
        return x
    if how == 'aged_view':
        pad = _other_codes(f, cs)
        if len(shape) == 1:
            p = build(f, pad[:1] + pad + pad[:1], (n + 2,), 'raw', **kw)
            warm(p)
            z = p[1:n + 1]
            warm(z)
            for i in range(n):
                p.set_val(cs[i], raw=True, index=1 + i)
        else:
            row = shape[1:]
            k = int(np.prod(row))
            p = build(f, pad[:k] + pad, (shape[0] + 1,) + tuple(row), 'raw', **kw)
            warm(p)
            z = p[1:]
            warm(z)
            for i, idx in enumerate(np.ndindex(*shape)):
                p.set_val(cs[i], raw=True, index=(idx[0] + 1,) + tuple(idx[1:]))
        return z
    if how == 'aged_sibling':
        x = build(f, cs, shape, 'raw', **kw)
        warm(x)
        # a shallow copy shares the status record by definition, so it only gets flag-free widenings here
        wide = 64 if f[1] <= 52 else (f[1] + 8 if f[1] + 8 < 64 else None)
        if wide is not None:
            y = x.copy()
            y.resize(n_word=wide)
        y = x.copy()
        y.set_val(0 if shape == () else np.zeros(shape, dtype=int))
        y = x.deepcopy()
        y.resize(signed=not f[0], n_word=f[1] + 3, n_frac=f[2] + 1)
        y = x.deepcopy()
        y.resize(n_word=f[1] + 8)
        if shape != ():
            v = x[0:1]
            v.resize(n_word=f[1] + 8)          # a widened view must not stay attached to x
            first = next(iter(np.ndindex(*shape)))
            _quiet(lambda: v.set_val(_other_codes(f, cs[:1])[0], raw=True, index=(0,) + tuple(first[1:])))
        return x
    if how == 'aged_derived':
        # no write after the derivation: whatever the parent cached travels with the derived object
        if shape == ():
            x0 = build(f, cs + _other_codes(f, cs), (2,), 'raw', **kw)
            warm(x0)
            return x0[0]
        if len(shape) == 2:
            arr = np.array(cs, dtype=object).reshape(shape).T.ravel().tolist()
            x0 = build(f, arr, (shape[1], shape[0]), 'raw', **kw)
            warm(x0)
            return x0.T
        x0 = build(f, cs, (1, n), 'raw', **kw)
        warm(x0)
        return x0.flatten()
    if how in ('aged_resized', 'aged_resigned'):
        f0 = (not f[0], max(f[1], 2) + 1, 0) if how == 'aged_resized' else (not f[0], f[1], 0)
        zeros = 0 if shape == () else np.zeros(shape, dtype=np.int64)
        x = Fxp(zeros, f0[0], f0[1], f0[2], **kw)
        warm(x)
        x.resize(dtype=Fmt(*f).dtype)
        warm(x)
        if shape == ():
            x.set_val(cs[0], raw=True)
        else:
            for i, idx in enumerate(np.ndindex(*shape)):
                x.set_val(cs[i], raw=True, index=idx)
        return x
    raise ValueError(how)


# ---------------------------------------------------------------------------------------------------------------------
# Environments: a second public feature in force while the judged operation runs.  Each of them is behaviour-neutral for
# arithmetic with given sizing, bitwise operators, shifts, comparisons, conversions and reductions (the properties do not
# mention them), so the oracle is the one of the default environment.  by='env:<name>' builds the operand raw under it.
class SubFxp(Fxp):
    """a user subclass without any override"""
    pass


class SubFxp2(Fxp):
    """a sibling subclass"""
    pass


ENV_CFG = ('dtype_notation=Q', 'array_op_method=raw', 'n_word_max=128', 'max_error=0.015625', 'bin_prefix=0b', 'op_input_size=best',
           'const_op_sizing=largest', 'op_method=repr')
ENVS = tuple('cfg:' + c for c in ENV_CFG) + ('template:u', 'template:s', 'subclass', 'subclass_left', 'subclass_right', 'flagged', 'callbacks')
# environments that do change what an operation means are left out per check (e.g. op_method for raw-vs-repr comparisons)


def build_env(f, cs, shape, env, **kw):
    arr = np.array(cs, dtype=np.int64).reshape(shape) if shape != () else cs[0]
    if env.startswith('cfg:'):
        k, v = env[4:].split('=')
        x = Fxp(arr, f[0], f[1], f[2], raw=True, **kw)
        cur = getattr(x.config, k)
        setattr(x.config, k, type(cur)(v) if not isinstance(cur, (bool, type(None))) else v)
        return x
    if env.startswith('template:'):
        # a class-level template of the named signedness (another format, non-default modes) is in force from here on
        t = Fxp(None, env.endswith('s'), 11, 3, rounding='around', overflow='wrap')
        Fxp.template = t
        return Fxp(arr, f[0], f[1], f[2], raw=True, rounding=kw.pop('rounding', 'trunc'), overflow=kw.pop('overflow', 'saturate'), **kw)
    if env == 'subclass':
        return SubFxp(arr, f[0], f[1], f[2], raw=True, **kw)
    if env in ('subclass_left', 'subclass_right'):
        # mixed classes: which operand is the subclass instance is decided by its shape (column vectors and 1-d arrays are "left"
        # operands in every harness, rows and scalars "right" ones), so a case replays identically
        left = shape != () and (len(shape) < 2 or shape[-1] == 1)
        cls = (SubFxp if left else Fxp) if env == 'subclass_left' else (Fxp if left else SubFxp2)
        return cls(arr, f[0], f[1], f[2], raw=True, **kw)
    if env == 'callbacks':
        return Fxp(arr, f[0], f[1], f[2], raw=True, callbacks=[Recorder()], **kw)
    if env == 'flagged':
        # the operand has overflowed, underflowed and lost accuracy before; it now holds the codes cs exactly (flags are sticky)
        x = Fxp(arr, f[0], f[1], f[2], raw=True, **kw)
        big = (1 << (f[1] + 2)) + 0.5
        zero = 0 if shape == () else np.zeros(shape)
        ov = x.config.overflow
        x.config.overflow = 'saturate'
        x.set_val(zero + big, raw=True)
        x.set_val(zero - big, raw=True)
        x.config.overflow = ov
        x.set_val(arr, raw=True)
        if flags(x) != (True, True, True) or codes(x) != [int(c) for c in (cs if shape != () else cs[:1])]:
            raise AssertionError('flagged environment not established: %s %s' % (flags(x), codes(x)))
        return x
    raise ValueError(env)
