"""E2: explicit-state breadth-first exploration of operation histories on the REAL objects.

A state is held as the event history that reaches it (live Fxp objects are rebuilt by replaying the history on fresh
objects: deep-copying a heap would destroy aliasing structure and hide class-level state).  `system` provides:

    system.initial()            -> list of initial histories (tuples of events)
    system.build(history)       -> live state object, replaying the history on fresh real objects AND stepping the reference
                                   model in lock-step; raises Disabled if the last event is not enabled in that state
    system.events(state)        -> finite menu of events enabled in `state` (deterministic order, simplest first)
    system.canon(state)         -> hashable canonical form (only fields the menu events can observe)
    system.check(state, history, acc) -> evaluates the invariant / model agreement in this state, records violations
"""
from collections import deque


class Disabled(Exception):
    """event not enabled in this state (not a transition)"""


def bfs(system, acc, depth, dedup=True, roots=None, max_states=None):
    """Explores all histories of at most `depth` events beyond each root.  Returns (states, transitions, max_depth_done).
    With dedup, a state whose canonical form was seen is not expanded again.  Without, every history is expanded."""
    reset = getattr(system, 'reset', None)
    seen = set()
    frontier = deque()
    n_trans = 0
    for h in (roots if roots is not None else system.initial()):
        h = tuple(h)
        if reset:
            reset()
        try:
            st = system.build(h)
        except Disabled:
            continue
        n_trans += len(h)
        system.check(st, h, acc)
        k = system.canon(st)
        acc.states.add(k)
        if dedup:
            if k in seen:
                continue
            seen.add(k)
        frontier.append((h, 0))
    deepest = 0
    while frontier:
        h, d = frontier.popleft()
        if d >= depth:
            continue
        if reset:
            reset()
        st = system.build(h)
        menu = system.events(st)
        for ev in menu:
            h2 = h + (ev,)
            if reset:
                reset()
            try:
                st2 = system.build(h2)
            except Disabled:
                acc.outcome('disabled')
                continue
            n_trans += 1
            acc.transitions += len(h2)          # API events executed on the real library for this history
            acc.evaluations += 1
            system.check(st2, h2, acc)
            k = system.canon(st2)
            acc.states.add(k)
            deepest = max(deepest, d + 1)
            if dedup:
                if k in seen:
                    acc.outcome('revisit')
                    continue
                seen.add(k)
            acc.outcome('new_state')
            if max_states is not None and len(seen) >= max_states:
                if 'max_states=%d' % max_states not in acc.caps:
                    acc.caps.append('max_states=%d' % max_states)
                continue
            frontier.append((h2, d + 1))
    return len(seen) if dedup else None, n_trans, deepest
