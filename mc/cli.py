import argparse, os, sys


def main():
    ap = argparse.ArgumentParser(prog='check')
    ap.add_argument('prop')
    ap.add_argument('--tier', default=os.environ.get('VERIF_TIER') or 'quick', choices=['quick', 'thorough'])
    ap.add_argument('--replay')
    ap.add_argument('--repo')
    ap.add_argument('--seed', type=int, default=None)
    ap.add_argument('--jobs', type=int, default=None)
    a = ap.parse_args()
    if a.repo:
        os.environ['FXPMATH_VERIF_REPO'] = a.repo
    seed = a.seed if a.seed is not None else int(os.environ.get('VERIF_SEED') or 0)
    from . import runner
    sys.exit(runner.run_check(a.prop.upper(), a.tier, seed, a.replay, a.jobs))


if __name__ == '__main__':
    main()
