"""Bounded exhaustive model checking of fxpmath (see /verif/DESIGN.md)."""
