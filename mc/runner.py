"""Shard scheduler, result merging, evidence, findings matching, exit codes.

A property module (mc/props/cNN.py) provides
    ID, TITLE, RULE (what makes a case non-trivial / distinct), ASSUMPTIONS (list of str)
    shards(tier, seed) -> list of JSON-able shard descriptors (deterministic order)
    run_shard(shard)   -> Acc (below)
    replay(case)       -> list of violation dicts (empty = the case passes now)
    finish(merged, tier, seed) -> optional: vacuity guards, extra coverage keys; may raise HarnessError
"""
import os, sys, json, time, hashlib, importlib, multiprocessing, traceback

VERIF = os.path.dirname(os.path.dirname(os.path.abspath(__file__)))
MAX_VIOL_PER_SHARD = 25
MAX_REPORTED = 40


class HarnessError(Exception):
    pass


class Acc:
    """per-shard accumulator"""

    def __init__(self):
        self.evaluations = 0        # cases judged
        self.transitions = 0        # public API calls executed on the real library
        self.nontrivial = 0         # distinct non-trivial cases (distinct by construction of the alphabets)
        self.skipped = 0            # out-of-domain cases not judged
        self.states = set()         # canonical observable states reached (hashable, small)
        self.outcomes = {}          # outcome class -> count  (vacuity guard)
        self.dims = {}              # dimension -> {letter: count}
        self.violations = []
        self.n_violations = 0
        self.samples = []
        self.caps = []              # caps hit, if any (then the run is not exhaustive)
        self.extra = {}
        self.sig_counts = {}        # violation signature -> number of violations with it (recorded or not)

    def dim(self, name, letter, n=1):
        d = self.dims.setdefault(name, {})
        d[letter] = d.get(letter, 0) + n

    def outcome(self, name, n=1):
        self.outcomes[name] = self.outcomes.get(name, 0) + n

    def sample(self, case, limit=2):
        if len(self.samples) < limit:
            self.samples.append(case)

    def violation(self, kind, case, detail, sig=None, full=None):
        """kind: short aspect name; case: JSON-able replayable case (shrunk); sig: dict used for known-finding matching;
        full: the unshrunk case, used for the replay file when the shrunk one does not reproduce on its own"""
        self.n_violations += 1
        s = {'kind': kind}
        s.update(sig or {})
        key = json.dumps(s, sort_keys=True, default=repr)
        n = self.sig_counts.get(key, 0)
        self.sig_counts[key] = n + 1
        # keep the first violations of the shard, and always at least one exemplar of every distinct signature
        if len(self.violations) < MAX_VIOL_PER_SHARD or (n == 0 and len(self.violations) < 8 * MAX_VIOL_PER_SHARD):
            v = {'kind': kind, 'case': case, 'detail': str(detail)[:600], 'sig': s}
            if full is not None and full != case:
                v['full'] = full
            self.violations.append(v)

    def export(self):
        return {
            'evaluations': self.evaluations, 'transitions': self.transitions, 'nontrivial': self.nontrivial,
            'skipped': self.skipped, 'states': self.states, 'outcomes': self.outcomes, 'dims': self.dims,
            'violations': self.violations, 'n_violations': self.n_violations, 'samples': self.samples,
            'caps': self.caps, 'extra': self.extra, 'sig_counts': self.sig_counts,
        }


def _merge(results):
    m = {'evaluations': 0, 'transitions': 0, 'nontrivial': 0, 'skipped': 0, 'states': set(), 'outcomes': {},
         'dims': {}, 'violations': [], 'n_violations': 0, 'samples': [], 'caps': [], 'extra': {}, 'sig_counts': {}}
    for r in results:
        for k in ('evaluations', 'transitions', 'nontrivial', 'skipped', 'n_violations'):
            m[k] += r[k]
        m['states'] |= r['states']
        for k, v in r['outcomes'].items():
            m['outcomes'][k] = m['outcomes'].get(k, 0) + v
        for dname, d in r['dims'].items():
            dd = m['dims'].setdefault(dname, {})
            for k, v in d.items():
                dd[k] = dd.get(k, 0) + v
        for v in r['violations']:
            v.setdefault('shard', r.get('_shard_index'))
        m['violations'].extend(r['violations'])
        for smp in r['samples'][:2]:
            # a few samples, but at least one of every kind of case (the 'part' of a harness) the run explored
            kind = smp.get('part') if isinstance(smp, dict) else None
            if kind not in m['extra'].setdefault('_sample_kinds', set()) and len(m['samples']) < 12:
                m['extra']['_sample_kinds'].add(kind)
                m['samples'].append(smp)
            elif len(m['samples']) < 4:
                m['samples'].append(smp)
        m['caps'].extend(r['caps'])
        for k, v in r.get('sig_counts', {}).items():
            m['sig_counts'][k] = m['sig_counts'].get(k, 0) + v
        for k, v in r['extra'].items():
            if isinstance(v, (int, float)):
                m['extra'][k] = m['extra'].get(k, 0) + v
            elif isinstance(v, set):
                m['extra'][k] = m['extra'].get(k, set()) | v
            else:
                m['extra'].setdefault(k, v)
    return m


_MOD = None


def _worker_init(prop):
    global _MOD
    from . import loader
    loader.load()
    _MOD = importlib.import_module('mc.props.' + prop.lower())


def _worker_run(args):
    idx, shard = args
    try:
        acc = _MOD.run_shard(shard)
        return idx, acc.export(), None
    except Exception:
        return idx, None, 'shard %r\n%s' % (shard, traceback.format_exc())


def _shard_violations(args):
    prop, shard = args
    _worker_init(prop)
    acc = _MOD.run_shard(shard)
    return acc.violations


def _shard_in_fresh_process(prop, shard):
    ctx = multiprocessing.get_context('spawn')
    try:
        with ctx.Pool(1) as pool:
            return pool.apply(_shard_violations, ((prop, shard),))
    except Exception:
        return None


def load_known():
    p = os.path.join(VERIF, 'known_findings.json')
    if not os.path.exists(p):
        return []
    return json.load(open(p))['findings']


def match_known(prop, viol, known):
    for k in known:
        if k.get('property') != prop or k.get('status') != 'known':
            continue
        sig = k.get('signature', {})
        if all(viol['sig'].get(a) == b for a, b in sig.items()):
            return k
    return None


def _json_default(o):
    if isinstance(o, (set, frozenset)):
        return sorted(o, key=repr)
    if isinstance(o, tuple):
        return list(o)
    return repr(o)


def run_check(prop, tier, seed, replay_path=None, jobs=None):
    from . import loader
    t0 = time.time()
    fxpmath = loader.load()
    mod = importlib.import_module('mc.props.' + prop.lower())
    known = load_known()

    if replay_path:
        case = json.load(open(replay_path))
        case = case.get('case', case)
        if isinstance(case, dict) and 'shard' in case and case.get('history_dependent'):
            viols = _shard_in_fresh_process(prop, case['shard']) or []
        else:
            viols = mod.replay(case)
        unknown = [v for v in viols if not match_known(prop, _mk(v), known)]
        for v in viols:
            print('replay: %s: %s' % (v['kind'], v['detail']))
        if unknown:
            print('VIOLATION property=%s replay=%s' % (prop, replay_path))
            return 1
        print('replay passes: no violation for this case on %s' % loader.target_repo())
        return 0

    shards = mod.shards(tier, seed)
    jobs = jobs or int(os.environ.get('VERIF_JOBS', '0')) or min(16, os.cpu_count() or 1)
    results = [None] * len(shards)
    errors = []
    if jobs == 1 or len(shards) == 1:
        _worker_init(prop)
        for i, s in enumerate(shards):
            idx, res, err = _worker_run((i, s))
            results[idx] = res
            if err:
                errors.append(err)
    else:
        ctx = multiprocessing.get_context('fork')
        # maxtasksperchild=1: every shard runs in a child freshly forked from this (library-pristine) process, so a shard's
        # result cannot depend on which shards the scheduler happened to run before it in the same worker
        with ctx.Pool(min(jobs, len(shards)), initializer=_worker_init, initargs=(prop,), maxtasksperchild=1) as pool:
            # heavier shards first (a shard may carry a '_cost' hint); results are merged in shard order whatever the schedule
            todo = sorted(enumerate(shards), key=lambda t: -t[1].get('_cost', 0))
            for idx, res, err in pool.imap_unordered(_worker_run, todo, chunksize=1):
                results[idx] = res
                if err:
                    errors.append(err)
    if errors:
        sys.stderr.write('HARNESS ERROR in %d shard(s):\n%s\n' % (len(errors), errors[0]))
        return 2
    for i, r in enumerate(results):
        r['_shard_index'] = i
    merged = _merge(results)          # shard order => deterministic

    # vacuity guards / extra coverage from the property module (a guard failing because violations removed an expected
    # outcome must not hide the violations: it only counts when nothing was violated)
    extra_cov = {}
    try:
        if hasattr(mod, 'finish'):
            extra_cov = mod.finish(merged, tier, seed) or {}
    except HarnessError as e:
        if not merged['violations']:
            sys.stderr.write('HARNESS ERROR (vacuity guard): %s\n' % e)
            return 2
        extra_cov = {'vacuity_guard_failed_because_of_violations': str(e)}

    # violations: determinism gate (replay twice in this process), known-finding matching, replay files
    os.makedirs(os.path.join(VERIF, 'replays', 'run'), exist_ok=True)
    reported, known_hits, exit_code = 0, {}, 0
    seen_keys = set()
    for v in merged['violations']:
        k = match_known(prop, v, known)
        if k is not None:
            known_hits.setdefault(k['id'], [k, 0])[1] += 1
            continue
        key = json.dumps(v['sig'], sort_keys=True, default=_json_default)
        if key in seen_keys and reported >= 5:
            continue
        seen_keys.add(key)
        if reported >= MAX_REPORTED:
            continue
        r1 = mod.replay(v['case'])
        if not r1 and 'full' in v:            # context-dependent failure: keep the unshrunk case
            v['case'] = v['full']
            r1 = mod.replay(v['case'])
        r2 = mod.replay(v['case'])
        unstable = json.dumps(r1, sort_keys=True, default=_json_default) != json.dumps(r2, sort_keys=True, default=_json_default)
        if unstable or not r1:
            # (`unstable`: two replays of the case in THIS process differ - the case itself changes state the library keeps between
            # calls; whether that is a deterministic, history-dependent violation is decided by the fresh-process runs below)
            # The case fails only after the operations that preceded it in its shard (state kept by the library between
            # calls, e.g. a module-level cache).  Re-run the whole shard twice in fresh processes: if the same violation
            # recurs both times it is a deterministic, history-dependent violation and the shard is its replay.
            sh = shards[v['shard']] if v.get('shard') is not None else None
            again = [_shard_in_fresh_process(prop, sh) for _ in range(2)] if sh is not None else [None, None]
            keys = [sorted(json.dumps(w['sig'], sort_keys=True, default=_json_default) for w in (a or [])) for a in again]
            mykey = json.dumps(v['sig'], sort_keys=True, default=_json_default)
            if again[0] is None or keys[0] != keys[1] or mykey not in keys[0]:
                sys.stderr.write('HARNESS ERROR: %s: %r\n' % ('replay is not deterministic, also across fresh processes' if unstable
                                                               else 'violation does not reproduce on replay', v))
                return 2
            v['case'] = {'shard': sh, 'history_dependent': True, 'first_failing_case': v['case']}
            v['detail'] += ' [fails only after the preceding operations of its shard: state kept between calls]'
        h = hashlib.sha1(json.dumps(v['case'], sort_keys=True, default=_json_default).encode()).hexdigest()[:12]
        path = os.path.join(VERIF, 'replays', 'run', '%s-%s.json' % (prop, h))
        with open(path, 'w') as f:
            json.dump({'property': prop, 'kind': v['kind'], 'detail': v['detail'], 'sig': v['sig'], 'case': v['case']},
                      f, indent=1, default=_json_default)
        print('  %s: %s' % (v['kind'], v['detail']))
        print('VIOLATION property=%s replay=%s' % (prop, path))
        reported += 1
        exit_code = 1
    for kid, (k, n) in sorted(known_hits.items()):
        print('KNOWN-FINDING: property=%s %s (%d case(s) this run; id=%s)' % (prop, k['what'], n, kid))

    # violations by signature: a signature is known iff its exemplar matches a `known` finding
    n_known_total = 0
    for key, cnt in merged['sig_counts'].items():
        if match_known(prop, {'sig': json.loads(key)}, known) is not None:
            n_known_total += cnt
    n_unknown_total = merged['n_violations'] - n_known_total
    wall = time.time() - t0
    cov = {
        'states': len(merged['states']),
        'transitions': merged['transitions'],
        'traces_validated_against_impl': merged['evaluations'],
        'samples': merged['samples'][:12] or [{'note': 'no sample recorded'}],
        'evaluations': merged['evaluations'],
        'distinct_nontrivial': merged['nontrivial'],
        'rule': getattr(mod, 'RULE', ''),
        'exhaustive': not merged['caps'],
        'caps_hit': merged['caps'],
        'skipped_out_of_domain': merged['skipped'],
        'distinct_outcomes': len(merged['outcomes']),
        'outcomes': merged['outcomes'],
        'dimensions': merged['dims'],
        'shards': len(shards),
        'bounds': mod.bounds(tier, seed) if hasattr(mod, 'bounds') else {},
        'known_findings_matched': {kid: n for kid, (k, n) in known_hits.items()},
        'target': loader.target_repo(),
    }
    for k, v in merged['extra'].items():
        if not k.startswith('_'):
            cov.setdefault(k, len(v) if isinstance(v, set) else v)
    cov.update(extra_cov)
    ev = {
        'property_id': prop, 'tier': tier, 'seed': seed, 'level': 'model_checking',
        'coverage': cov,
        'assumptions': list(getattr(mod, 'ASSUMPTIONS', [])),
        'wall_s': round(wall, 2),
        'violations': n_unknown_total,
    }
    # evidence is about /repo; runs against another tree (mutant scratch copies) must not overwrite it
    evdir = os.path.join(VERIF, 'evidence') if loader.target_repo() == '/repo' else \
        os.environ.get('VERIF_EVIDENCE_DIR', os.path.join(VERIF, 'replays', 'run'))
    os.makedirs(evdir, exist_ok=True)
    tmp = os.path.join(evdir, '.%s.json.tmp' % prop)
    with open(tmp, 'w') as f:
        json.dump(ev, f, indent=1, default=_json_default, sort_keys=True)
    os.replace(tmp, os.path.join(evdir, '%s.json' % prop))
    print('%s %s seed=%d: states=%d transitions=%d cases=%d nontrivial=%d outcomes=%d skipped=%d violations=%d '
          'known=%d wall=%.1fs%s' % (prop, tier, seed, cov['states'], cov['transitions'], cov['evaluations'],
                                     cov['distinct_nontrivial'], cov['distinct_outcomes'], cov['skipped_out_of_domain'],
                                     ev['violations'], n_known_total, wall,
                                     '' if not merged['caps'] else ' CAPS=%s' % merged['caps']))
    if exit_code == 0 and n_unknown_total > 0:
        # unknown violations that were not written out (beyond the caps) still fail the check
        print('VIOLATION property=%s replay=%s' % (prop, os.path.join(VERIF, 'replays', 'run')))
        exit_code = 1
    return exit_code


def _mk(v):
    v = dict(v)
    s = {'kind': v.get('kind')}
    s.update(v.get('sig') or {})
    v['sig'] = s
    return v
