"""C10 - format conversion gives the same correctly quantized value by every route; source unchanged; shape preserved.
E1 (format pairs x codes x modes x routes) + E2 (BFS over conversion sequences)."""
import numpy as np
from ..runner import Acc, HarnessError
from ..refmodel import Fmt, MODES, quantize
from .. import alphabet as al
from ..common import AGED, build_aged, ENVS, build as common_build, Fxp, fx, mk, codes, flags, fmt_of, reset_class_state, obs
from ..explore import bfs, Disabled

ID = 'C10'
RULE = ('E1 cases = (source format, destination format, destination modes, route, source codes [scalar / 1-d all codes / 2-d]); the '
        'destination must hold quantize(exact source value) under the destination modes, with the source observation and the shape '
        'unchanged; all routes are thereby compared with each other. E2 cases = conversion sequences (history of (route, destination, '
        'modes) events) with the reference model stepped in lock-step. non-trivial = some source value is inexact or out of range in '
        'the destination; distinct by construction')
ASSUMPTIONS = ['reference quantizer (C01)', 'the source holds exact codes (built with raw=True)',
               'flags of the destination are compared only for routes that start from a fresh destination']

ROUTES = ('resize', 'resize_dtype', 'resize_n_int', 'like=', 'like()', 'Fxp(x,sizes)', 'Fxp(x,n_int)', 'call', 'set_val', 'equal', 'setitem', 'fxp_like', 'value')
# for scalar sources additionally: t[1] = x into a 1-d destination (indexed assignment of a fixed-point element)


C10_ENVS = tuple(e for e in ENVS if e != 'flagged')       # a flagged source legitimately hands its inaccuracy on


def fmt_grid(nws):
    out = []
    for signed in (True, False):
        for nw in nws:
            for nf in sorted({-1, 0, 1, nw // 2, nw, nw + 1}):
                out.append(Fmt(signed, nw, nf))
    return out


def convert(route, x, dst, r, o):
    """apply one conversion route; returns the destination object"""
    if route == 'resize':
        y = x.deepcopy()
        y.config.rounding, y.config.overflow = r, o
        y.resize(dst.signed, dst.n_word, dst.n_frac)
        return y
    if route == 'resize_dtype':
        y = x.deepcopy()
        y.config.rounding, y.config.overflow = r, o
        y.resize(dtype=dst.dtype)
        return y
    if route == 'resize_n_int':
        # the destination described by its integer and fraction lengths (the word follows), signedness changed in the same call
        y = x.deepcopy()
        y.config.rounding, y.config.overflow = r, o
        y.resize(signed=dst.signed, n_int=dst.n_int, n_frac=dst.n_frac)
        return y
    if route == 'Fxp(x,n_int)':
        return Fxp(x, signed=dst.signed, n_int=dst.n_int, n_frac=dst.n_frac, rounding=r, overflow=o)
    if route == 'Fxp(x,sizes)':
        return Fxp(x, dst.signed, dst.n_word, dst.n_frac, rounding=r, overflow=o)
    if route == 'value':
        return Fxp(x.get_val(), dst.signed, dst.n_word, dst.n_frac, rounding=r, overflow=o)
    shape = np.shape(x.val)
    t = Fxp(np.zeros(shape) if shape else 0, dst.signed, dst.n_word, dst.n_frac, rounding=r, overflow=o)
    if route == 'like=':
        return Fxp(x, like=t)
    if route == 'like()':
        return x.like(t)
    if route == 'call':
        t(x)
        return t
    if route == 'set_val':
        t.set_val(x)
        return t
    if route == 'equal':
        t.equal(x)
        return t
    if route == 'setitem':
        t[...] = x
        return t
    if route == 'setitem_elem':
        t2 = Fxp([0, 0], dst.signed, dst.n_word, dst.n_frac, rounding=r, overflow=o)
        t2[1] = x
        return t2[1]
    if route == 'fxp_like':
        return fx.fxp_like(t, x)
    raise ValueError(route)


def make_source(src, cs, shape, by):
    if by == 'raw_T':
        # a 2-d source that is a transposed (not C-contiguous) view holding the codes cs in logical row-major order
        r, c = shape
        arr = np.array(cs, dtype=np.int64).reshape(r, c)
        x = Fxp(np.ascontiguousarray(arr.T), src.signed, src.n_word, src.n_frac, raw=True).T
        assert codes(x) == list(cs)
        return x
    if by in AGED:
        return build_aged(src, list(cs), tuple(shape), by)
    if by.startswith('env:'):                 # the source lives in an environment (configuration options, class template, subclass, callbacks)
        return common_build(src, list(cs), tuple(shape), by)
    if by == 'elem_hist':
        # a scalar source that is an element of an array which was read before, then resized by dtype string (from a wider, finer format)
        f0 = Fmt(src.signed, src.n_word + 4, src.n_frac + 2)
        x0 = Fxp(np.array([cs[0] << 2, 0, cs[0] << 2], dtype=np.int64), f0.signed, f0.n_word, f0.n_frac, raw=True)
        x0[0], x0[1]
        x0.resize(dtype=src.dtype)
        x = x0[2]
        assert codes(x) == list(cs) and fmt_of(x) == src
        return x
    return _make_source(src, cs, shape, by)


def _make_source(src, cs, shape, by):
    """by='raw': codes written raw (value type unset); by='value': built from the exact values (integer values give the
    object an integer value type, which conversions must not let leak into the rounding)"""
    if by == 'raw':
        arr = np.array(cs, dtype=np.int64).reshape(shape) if shape else cs[0]
        return Fxp(arr, src.signed, src.n_word, src.n_frac, raw=True)
    if src.n_frac <= 0:
        vals = [c << -src.n_frac for c in cs]
        arr = np.array(vals, dtype=np.int64).reshape(shape) if shape else vals[0]
    else:
        vals = [src.fvalue(c) for c in cs]
        arr = np.array(vals, dtype=np.float64).reshape(shape) if shape else vals[0]
    x = Fxp(arr, src.signed, src.n_word, src.n_frac)
    assert codes(x) == list(cs) and flags(x) == (False, False, False)
    return x


def judge(acc, src, dst, r, o, cs, shape, route, part, by='raw'):
    case = {'part': part, 'src': list(src), 'dst': list(dst), 'mode': [r, o], 'codes': list(cs), 'shape': list(shape), 'route': route,
            'by': by}
    acc.dim('source_by', by, len(cs))
    exp = [quantize((c, src.n_frac) if src.n_frac >= 0 else (c << -src.n_frac, 0), dst, r, o) for c in cs]
    nt = sum(1 for e in exp if e[1] or e[2] or e[3])
    acc.evaluations += len(cs)
    acc.transitions += 1
    acc.nontrivial += nt
    acc.dim('route', route, len(cs))
    acc.outcome('inexact_or_out', nt)
    acc.outcome('preserved', len(cs) - nt)
    try:
        x = make_source(src, cs, shape, by)
        before = obs(x)
        y = convert(route, x, dst, r, o)
        after = obs(x)
        got = codes(y)
    except Exception as e:
        acc.violation('exception', case, '%s -> %s %s/%s route=%s codes=%s raised %r' % (src.dtype, dst.dtype, r, o, route, list(cs)[:6], e),
                      {'part': part, 'route': route, 'exc': type(e).__name__})
        return
    acc.states.add((dst, tuple(got) if len(got) <= 4 else hash(tuple(got))))
    expc = [e[0] for e in exp]
    if fmt_of(y) != dst:
        acc.violation('format', case, '%s -> %s route=%s: result format %s' % (src.dtype, dst.dtype, route, y.dtype), {'part': part, 'route': route})
        return
    if got != expc:
        i = [j for j in range(len(cs)) if j >= len(got) or got[j] != expc[j]][0]
        acc.violation('code', dict(case, codes=[cs[i]], shape=[]) if not shape or True else case,
                      '%s -> %s %s/%s route=%s: source code %d converted to %s, expected %d'
                      % (src.dtype, dst.dtype, r, o, route, cs[i], got[i] if i < len(got) else None, expc[i]),
                      {'part': part, 'route': route}, full=case)
        return
    if tuple(np.shape(y.val)) != tuple(shape):
        acc.violation('shape', case, '%s -> %s route=%s: shape %s became %s' % (src.dtype, dst.dtype, route, tuple(shape), np.shape(y.val)),
                      {'part': part, 'route': route})
    if after != before:
        acc.violation('source_changed', case, '%s -> %s route=%s: source changed from %s to %s' % (src.dtype, dst.dtype, route, before, after),
                      {'part': part, 'route': route})
    ef = (any(e[1] for e in exp), any(e[2] for e in exp), any(e[3] for e in exp))
    if route != 'setitem_elem' and flags(y) != ef:        # (the element view returned for setitem_elem has a status record of its own)
        acc.violation('flags', case, '%s -> %s %s/%s route=%s: destination flags %s expected %s' % (src.dtype, dst.dtype, r, o, route, flags(y), ef),
                      {'part': part, 'route': route})
    acc.sample(dict(case, codes=list(cs)[:4]), 1)


# ------------------------------------------------------------------------------------------ E2
SEQ_FORMATS = (Fmt(True, 5, 2), Fmt(False, 4, 1), Fmt(True, 3, 0), Fmt(True, 6, 4), Fmt(False, 3, 3), Fmt(True, 4, -1))
SEQ_MODES = (('trunc', 'saturate'), ('around', 'wrap'), ('ceil', 'saturate'), ('floor', 'wrap'))
SEQ_ROUTES = ('resize', 'like=', 'like()', 'Fxp(x,sizes)', 'set_val', 'equal', 'setitem', 'resize_dtype')
SEQ_EVENTS = [(rt, fi, mi) for fi in range(len(SEQ_FORMATS)) for mi in range(len(SEQ_MODES)) for rt in SEQ_ROUTES]


class SeqState:
    __slots__ = ('x', 'mfmt', 'mcodes', 'shape')


class SeqSystem:
    def __init__(self, root):
        self.root = root            # (fmt, shape)

    def reset(self):
        reset_class_state()

    def initial(self):
        return [()]

    def build(self, h):
        fmt, shape = self.root
        cs = list(range(fmt.lo, fmt.hi + 1))
        n = int(np.prod(shape)) if shape else 1
        cs = (cs * n)[:n] if len(cs) < n else cs[:: max(1, len(cs) // n)][:n]
        st = SeqState()
        st.shape = shape
        st.x = make_source(fmt, cs, shape, 'value')
        st.mfmt, st.mcodes = fmt, cs
        for (rt, fi, mi) in h:
            dst = SEQ_FORMATS[fi]
            r, o = SEQ_MODES[mi]
            st.x = convert(rt, st.x, dst, r, o)
            src = st.mfmt
            st.mcodes = [quantize((c, src.n_frac) if src.n_frac >= 0 else (c << -src.n_frac, 0), dst, r, o)[0] for c in st.mcodes]
            st.mfmt = dst
        return st

    def events(self, st):
        return self.menu if getattr(self, 'menu', None) else SEQ_EVENTS

    def canon(self, st):
        return (fmt_of(st.x), tuple(codes(st.x)), tuple(np.shape(st.x.val)))

    def check(self, st, h, acc):
        case = {'part': 'seq', 'root': [list(self.root[0]), list(self.root[1])], 'history': [list(e) for e in h]}
        got = codes(st.x)
        if fmt_of(st.x) != st.mfmt or got != st.mcodes or tuple(np.shape(st.x.val)) != tuple(st.shape):
            acc.violation('sequence', case, 'root %s history %s: object %s codes %s shape %s, model %s codes %s shape %s'
                          % (self.root[0].dtype, [list(e) for e in h], st.x.dtype, got[:6], np.shape(st.x.val), st.mfmt.dtype, st.mcodes[:6],
                             tuple(st.shape)), {'part': 'seq', 'route': h[-1][0] if h else None})
        if h:
            acc.nontrivial += 1
        acc.sample(case, 1)


SEQ_ROOTS = [(Fmt(True, 5, 2), (4,)), (Fmt(False, 4, 1), (2, 2)), (Fmt(True, 6, 4), ()), (Fmt(True, 4, 0), (3,)), (Fmt(False, 3, 0), ())]


# ------------------------------------------------------------------------------------------ driver
def bounds(tier, seed):
    nws = (1, 2, 3, 5) if tier == 'quick' else (1, 2, 3, 4, 5, 6)
    return {'E1': 'source x destination formats from n_word in %s, n_frac in {-1,0,1,mid,n,n+1}, both signednesses (%d formats, all pairs); '
                  'all source codes as one 1-d array; 10 destination modes; 11 routes; scalars (each code) for source n_word<=2; 2-d arrays '
                  'for source n_word in {2,3}' % (nws, len(fmt_grid(nws))),
            'E1_grid': 'boundary codes for (src,dst) n_word in {8,16,24,32,52} x n_frac in {0,mid,n} under deviation bound (default route resize, '
                       'default mode trunc/saturate; all routes x default mode, all modes x resize)',
            'E2': 'BFS over sequences: %d roots, %d events (8 routes x %d formats x %d mode pairs), depth %d with dedup; without dedup: depth 2 over the full menu%s'
                  % (len(SEQ_ROOTS), len(SEQ_EVENTS), len(SEQ_FORMATS), len(SEQ_MODES), 8 if tier != 'quick' else 4,
                     '' if tier == 'quick' else ' and depth 3 over a 32-event sub-menu'),
            'seed': seed}


def shards(tier, seed):
    out = []
    nws = (1, 2, 3, 5) if tier == 'quick' else (1, 2, 3, 4, 5, 6)
    g = fmt_grid(nws)
    for si in range(len(g)):
        out.append({'part': 'E1', 'nws': list(nws), 'si': si})
    for nw in (8, 16, 24, 32, 52):
        out.append({'part': 'G', 'nw': nw, 'seed': seed})
    depth, depth_nd = (4, 2) if tier == 'quick' else (8, 3)
    for ri in range(len(SEQ_ROOTS)):
        if tier == 'quick':
            for mi in range(len(SEQ_MODES)):
                for fi in range(len(SEQ_FORMATS)):
                    out.append({'part': 'seq', 'root': ri, 'first': [mi, fi], 'depth': depth, 'dedup': True})
        else:
            # deep search: one explorer per root (sharding by first event would re-explore the same closure in every shard)
            out.insert(0, {'part': 'seq', 'root': ri, 'first': None, 'depth': depth, 'dedup': True})
        if tier == 'quick':
            out.append({'part': 'seq', 'root': ri, 'first': None, 'depth': 2, 'dedup': False})
        else:
            # without dedup: full menu to depth 2, and a 32-event sub-menu (8 routes x 2 formats x 2 mode pairs) to depth 3
            out.append({'part': 'seq', 'root': ri, 'first': None, 'depth': 2, 'dedup': False})
            out.append({'part': 'seq', 'root': ri, 'first': None, 'depth': 3, 'dedup': False, 'submenu': True})
    return out


def run_shard(sh):
    reset_class_state()
    acc = Acc()
    if sh['part'] == 'E1':
        g = fmt_grid(sh['nws'])
        src = g[sh['si']]
        cs = list(range(src.lo, src.hi + 1))
        for dst in g:
            for (r, o) in MODES:
                for route in ROUTES:
                    judge(acc, src, dst, r, o, cs, (len(cs),), route, 'E1')
                    if route != 'value':
                        judge(acc, src, dst, r, o, cs, (len(cs),), route, 'E1', 'value')
                    if src.n_word <= 2:
                        for c in cs:
                            judge(acc, src, dst, r, o, [c], (), route, 'E1s')
                            if route != 'value' and (r, o) in (('around', 'saturate'), ('floor', 'wrap')):
                                judge(acc, src, dst, r, o, [c], (), route, 'E1s', 'elem_hist')
                            if route == 'setitem':
                                judge(acc, src, dst, r, o, [c], (), 'setitem_elem', 'E1s')
                                judge(acc, src, dst, r, o, [c], (), 'setitem_elem', 'E1s', 'value')
                    if route != 'value' and (r, o) in (('ceil', 'saturate'), ('around', 'wrap')) and (src.n_word <= 2 or g.index(dst) % 3 == sh['si'] % 3):
                        how = AGED[(g.index(dst) + ROUTES.index(route)) % len(AGED)]
                        judge(acc, src, dst, r, o, cs, (len(cs),), route, 'E1', how)          # sources reached through a history
                    if route != 'value' and (r, o) in (('floor', 'saturate'), ('around', 'wrap')) and (src.n_word <= 2 or g.index(dst) % 4 == sh['si'] % 4):
                        env = C10_ENVS[(g.index(dst) + 2 * ROUTES.index(route) + (o == 'wrap')) % len(C10_ENVS)]
                        judge(acc, src, dst, r, o, cs, (len(cs),), route, 'E1', 'env:' + env)       # sources in an environment
                    if src.n_word in (2, 3) and (r, o) in (('trunc', 'saturate'), ('around', 'wrap')):
                        judge(acc, src, dst, r, o, cs[:4], (2, 2), route, 'E1m')
                        if len(cs) >= 6 and route != 'value':
                            judge(acc, src, dst, r, o, cs[:6], (2, 3), route, 'E1m', 'raw_T')
    elif sh['part'] == 'G':
        nw = sh['nw']
        big = (8, 16, 24, 32, 52)
        for ssig in (True, False):
            for snf in sorted({0, nw // 2, nw}):
                src = Fmt(ssig, nw, snf)
                cs = [c for c in al.code_alphabet(src, sh['seed'])]
                for dnw in big:
                    for dsig in (True, False):
                        for dnf in sorted({0, dnw // 2, dnw}):
                            dst = Fmt(dsig, dnw, dnf)
                            for route in ROUTES:
                                judge(acc, src, dst, 'trunc', 'saturate', cs, (len(cs),), route, 'G')
                            if snf > dnf:
                                # fraction bits are dropped: codes one source LSB away from the destination grid and from its ties (only
                                # a rounding that looks at ALL dropped bits gets them right), by every route and every direction of rounding
                                sh_ = snf - dnf
                                near = sorted({c for m in (0, 1, -1, 3, -3, (src.hi >> sh_), (src.lo >> sh_) + 1) for c in
                                               ((m << sh_) - 1, (m << sh_) + 1, (m << sh_) + (1 << (sh_ - 1)) - 1, (m << sh_) + (1 << (sh_ - 1)) + 1,
                                                (m << sh_) + (1 << (sh_ - 1)), m << sh_) if src.lo <= c <= src.hi})
                                for (r, o) in (('floor', 'saturate'), ('ceil', 'saturate'), ('around', 'wrap'), ('fix', 'saturate')):
                                    for route in ROUTES:
                                        judge(acc, src, dst, r, o, near, (len(near),), route, 'Gn')
                            for c in (src.lo, src.hi):
                                # scalar sources, and sources that are elements read from an array (NumPy scalars inside)
                                for route in ROUTES + ('setitem_elem',):
                                    judge(acc, src, dst, 'around', 'saturate', [c], (), route, 'Gs')
                                    if route != 'value':
                                        judge(acc, src, dst, 'around', 'saturate', [c], (), route, 'Gs', 'elem_hist')
                            for (r, o) in MODES[1:]:
                                # wrap is defined while the re-scaled code stays inside 62 bits (core domain); saturate for any magnitude
                                if o == 'wrap' and nw + max(0, dnf - snf) > 62:
                                    acc.skipped += 1
                                    continue
                                judge(acc, src, dst, r, o, cs, (len(cs),), 'resize', 'G')
    else:
        system = SeqSystem(SEQ_ROOTS[sh['root']])
        if sh.get('submenu'):
            system.menu = [e for e in SEQ_EVENTS if e[1] in (0, 2) and e[2] in (0, 1)]
        roots = [()] if sh['first'] is None else [(e,) for e in SEQ_EVENTS if [e[2], e[1]] == list(sh['first'])]
        depth = sh['depth'] if sh['first'] is None else sh['depth'] - 1
        n, t, deep = bfs(system, acc, depth, dedup=sh['dedup'], roots=roots)
        acc.extra.setdefault('depths', set()).add((sh['dedup'], deep + (0 if sh['first'] is None else 1)))
    return acc


def replay(case):
    reset_class_state()
    acc = Acc()
    if case['part'] == 'seq':
        system = SeqSystem((Fmt(*case['root'][0]), tuple(case['root'][1])))
        h = tuple(tuple(e) for e in case['history'])
        try:
            st = system.build(h)
        except Exception as e:
            acc.violation('exception', case, repr(e), {'part': 'seq'})
            return acc.violations
        system.check(st, h, acc)
    else:
        judge(acc, Fmt(*case['src']), Fmt(*case['dst']), case['mode'][0], case['mode'][1], case['codes'], tuple(case['shape']),
              case['route'], case['part'], case.get('by', 'raw'))
    return acc.violations


def finish(merged, tier, seed):
    for rt in ROUTES:
        if merged['dims']['route'].get(rt, 0) < 100:
            raise HarnessError('route %s under-exercised' % rt)
    for k in ('inexact_or_out', 'preserved', 'new_state', 'revisit'):
        if merged['outcomes'].get(k, 0) < 50:
            raise HarnessError('outcome %s under-exercised' % k)
    return {'bfs_depths_completed': sorted(merged['extra'].get('depths', []))}
