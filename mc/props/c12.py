"""C12 - dtype strings and formats determine each other in every notation (E1, complete over the stated domain)."""
import numpy as np
from ..runner import Acc, HarnessError
from ..refmodel import Fmt
from ..common import Fxp, fx, fmt_of, codes, reset_class_state

ID = 'C12'
RULE = ('cases = (signed, n_word, n_frac[, complex], configured notation) x operation in {dtype attribute, Fxp(dtype=), resize(dtype=), '
        'get_dtype(None/fxp/Q) under both configured defaults, Q/UQ/S/U spellings in both cases, fxp_sum(dtype=)}; the string must be exactly '
        'fxp-{s|u}{n_word}/{n_frac}{-complex} resp. {Q|UQ}{n_word-n_frac}.{n_frac} and parsing must return the same format. non-trivial = '
        'n_frac < 0, n_frac > n_word, complex, or Q notation; every format of the domain is visited once (complete enumeration)')
ASSUMPTIONS = ['Q notation is parsed only when m = n_word - n_frac >= 0 (as the property states)']


def nw_list(tier):
    if tier == 'quick':
        return list(range(1, 71)) + [100, 128, 200, 256]
    return list(range(1, 257))


def spell_fxp(f, cplx=False):
    return 'fxp-%s%d/%d%s' % ('s' if f.signed else 'u', f.n_word, f.n_frac, '-complex' if cplx else '')


def spell_q(f):
    return '%s%d.%d' % ('Q' if f.signed else 'UQ', f.n_word - f.n_frac, f.n_frac)


def judge_format(acc, f):
    case = {'part': 'F', 'fmt': list(f)}
    nontriv = f.n_frac < 0 or f.n_frac > f.n_word

    def bad(kind, msg, **sig):
        acc.violation(kind, dict(case, op=kind), '%s: %s' % (spell_fxp(f), msg), dict(part='F', **sig))

    try:
        x = Fxp(None, f.signed, f.n_word, f.n_frac)
        acc.transitions += 1
        acc.evaluations += 1
        if nontriv:
            acc.nontrivial += 1
        # rendering
        if x.dtype != spell_fxp(f):
            bad('render', 'dtype attribute is %r' % x.dtype)
        for notation, want in ((None, spell_fxp(f)), ('fxp', spell_fxp(f)), ('Q', spell_q(f))):
            g = x.get_dtype(notation) if notation else x.get_dtype()
            acc.transitions += 1
            acc.evaluations += 1
            if g != want:
                bad('get_dtype', 'get_dtype(%r) under configured fxp returned %r, expected %r' % (notation, g, want), notation=str(notation), configured='fxp')
            if x.dtype != spell_fxp(f):
                bad('get_dtype_side_effect', 'after get_dtype(%r) the dtype attribute is %r' % (notation, x.dtype))
        # configured Q
        xq = Fxp(None, f.signed, f.n_word, f.n_frac, dtype_notation='Q')
        acc.transitions += 1
        acc.evaluations += 1
        acc.nontrivial += 1
        if xq.dtype != spell_q(f):
            bad('render_q', 'dtype attribute under configured Q is %r, expected %r' % (xq.dtype, spell_q(f)))
        for notation, want in ((None, spell_q(f)), ('fxp', spell_fxp(f)), ('Q', spell_q(f))):
            g = xq.get_dtype(notation) if notation else xq.get_dtype()
            acc.transitions += 1
            acc.evaluations += 1
            if g != want:
                bad('get_dtype', 'get_dtype(%r) under configured Q returned %r, expected %r' % (notation, g, want), notation=str(notation), configured='Q')
        # configuration switched after construction (history)
        xs = Fxp(None, f.signed, f.n_word, f.n_frac)
        xs.config.dtype_notation = 'Q'
        g1, g2 = xs.get_dtype('Q'), xs.get_dtype()
        xs.config.dtype_notation = 'fxp'
        g3, g4 = xs.get_dtype('fxp'), xs.get_dtype()
        acc.transitions += 4
        acc.evaluations += 4
        if (g1, g2, g3, g4) != (spell_q(f), spell_q(f), spell_fxp(f), spell_fxp(f)):
            bad('get_dtype_history', 'after switching the configured notation: %r' % ((g1, g2, g3, g4),))
        # parsing: construct and resize with the strings
        strings = [(spell_fxp(f), 'fxp')]
        if f.n_word - f.n_frac >= 0:
            m, n = f.n_word - f.n_frac, f.n_frac
            strings += [('%s%d.%d' % (p, m, n), 'Q') for p in (('Q', 'q', 'S', 's') if f.signed else ('UQ', 'uq', 'U', 'u', 'Uq', 'QU'))]
            if n == 0:
                strings.append(('%s%d' % ('S' if f.signed else 'U', m), 'Q-int'))
        strings.append((spell_fxp(f).upper(), 'fxp-upper'))
        for st, kind in strings:
            y = Fxp(None, dtype=st)
            acc.transitions += 1
            acc.evaluations += 1
            if fmt_of(y) != f or y.n_int != f.n_int:
                bad('parse_ctor', 'Fxp(dtype=%r) gives %s (n_int %r)' % (st, y.dtype, y.n_int), spelling=kind)
            z = Fxp(None, not f.signed, 7, 3)
            z.resize(dtype=st)
            acc.transitions += 1
            acc.evaluations += 1
            if fmt_of(z) != f or z.n_int != f.n_int or z.dtype != spell_fxp(f):
                bad('parse_resize', 'resize(dtype=%r) gives %s' % (st, z.dtype), spelling=kind)
        # history: an object of the OPPOSITE signedness resized by dtype string to this format must render and report like a fresh one
        for st in [spell_fxp(f)] + ([spell_q(f)] if f.n_word - f.n_frac >= 0 else []):
            hobj = Fxp(None, not f.signed, max(1, f.n_word - 1), 1)
            hobj.resize(dtype=st)
            acc.transitions += 3
            acc.evaluations += 3
            if (hobj.get_dtype('Q'), hobj.get_dtype('fxp'), hobj.n_int, hobj.dtype) != (spell_q(f), spell_fxp(f), f.n_int, spell_fxp(f)):
                bad('resize_flip_signedness', 'object of the other signedness resized with dtype=%r: Q %r fxp %r n_int %r'
                    % (st, hobj.get_dtype('Q'), hobj.get_dtype('fxp'), hobj.n_int))
        # an object holding a value keeps it when representable (resize by its own dtype is the identity)
        if f.n_word <= 52:
            w = Fxp(f.hi, f.signed, f.n_word, f.n_frac, raw=True)
            w.resize(dtype=w.dtype)
            acc.transitions += 1
            if fmt_of(w) != f or codes(w) != [f.hi]:
                bad('resize_identity', 'resize(dtype=x.dtype) changed the object to %s code %s' % (w.dtype, codes(w)))
        # complex
        if f.n_word <= 52:
            acc.nontrivial += 1
            c = Fxp(0j, f.signed, f.n_word, f.n_frac)
            acc.transitions += 1
            acc.evaluations += 1
            if c.dtype != spell_fxp(f, True):
                bad('render_complex', 'complex object dtype is %r' % c.dtype)
            c2 = Fxp(None, dtype=spell_fxp(f, True))
            c3 = Fxp(None, True, 9, 2)
            c3.resize(dtype=spell_fxp(f, True))
            c4 = Fxp(None, dtype=spell_fxp(f, True).upper())                   # parsing is case-insensitive, suffix included
            c5 = Fxp(None, True, 9, 2)
            c5.resize(dtype=spell_fxp(f, True).replace('fxp', 'Fxp').replace('complex', 'Complex'))
            acc.transitions += 4
            acc.evaluations += 4
            for nm, o in (('ctor', c2), ('resize', c3), ('ctor_upper', c4), ('resize_mixed', c5)):
                if fmt_of(o) != f or o.dtype != spell_fxp(f, True) or o.vdtype != complex:
                    bad('parse_complex', '%s with dtype=%r gives %s (vdtype %r)' % (nm, spell_fxp(f, True), o.dtype, o.vdtype), route=nm)
            # the complex dtype string combined with like= / a class-level template that is REAL: the string decides
            ref_r = Fxp(None, not f.signed, 9, 2)
            ref_c = Fxp(0j, not f.signed, 9, 2)
            c6 = Fxp(None, like=ref_r, dtype=spell_fxp(f, True))
            c7 = Fxp(None, like=ref_c, dtype=spell_fxp(f, True))
            r6 = Fxp(None, like=ref_r, dtype=spell_fxp(f))
            Fxp.template = ref_r
            try:
                c8 = Fxp(None, dtype=spell_fxp(f, True))
                r8 = Fxp(None, dtype=spell_fxp(f))
            finally:
                Fxp.template = None
            acc.transitions += 5
            acc.evaluations += 5
            for nm, o, cx in (('like_real', c6, True), ('like_complex', c7, True), ('template_real', c8, True), ('like_real_realstr', r6, False),
                              ('template_real_realstr', r8, False)):
                if fmt_of(o) != f or o.dtype != spell_fxp(f, cx) or (o.vdtype == complex) != cx:
                    bad('parse_complex', '%s with dtype=%r gives %s (vdtype %r)' % (nm, spell_fxp(f, cx), o.dtype, o.vdtype), route=nm)
            # history: rendered, then the value becomes complex (and real again) without any resize, rendered again
            hq = Fxp(0.0, f.signed, f.n_word, f.n_frac)
            first = (hq.get_dtype('fxp'), hq.get_dtype('Q'), hq.get_dtype(), hq.dtype)
            hq.set_val(0j)
            second = (hq.get_dtype('fxp'), hq.get_dtype(), hq.dtype)
            hq.set_val(0.0)
            third = (hq.get_dtype('fxp'), hq.get_dtype('Q'), hq.get_dtype(), hq.dtype)
            hq(0j)
            fourth = (hq.get_dtype('fxp'), hq.dtype)
            acc.transitions += 12
            acc.evaluations += 4
            exp1 = (spell_fxp(f), spell_q(f), spell_fxp(f), spell_fxp(f))
            if first != exp1 or second != (spell_fxp(f, True),) * 3 or third != exp1 or fourth != (spell_fxp(f, True),) * 2:
                bad('complex_history', 'render / store complex / render / store real / render: %r %r %r %r' % (first, second, third, fourth))
        # fxp_sum(dtype=): the public route into utils.get_sizes_from_dtype
        if f.n_word <= 52 or f.n_word in (64, 100, 256):
            for cplx in (False, True):
                s = fx.fxp_sum(Fxp([0, 0], True, 8, 0), dtype=spell_fxp(f, cplx))
                acc.transitions += 1
                acc.evaluations += 1
                if fmt_of(s) != f:
                    bad('fxp_sum', 'fxp_sum(dtype=%r) gives %s' % (spell_fxp(f, cplx), s.dtype), complex=cplx)
        acc.states.add(tuple(f))
        acc.outcome('format_round_trips')
        acc.outcome('n_frac<0' if f.n_frac < 0 else ('n_frac>n_word' if f.n_frac > f.n_word else 'n_frac_in_word'))
        acc.outcome('q_parseable' if f.n_word - f.n_frac >= 0 else 'q_not_parseable')
    except Exception as e:
        acc.violation('exception', case, '%s raised %r' % (spell_fxp(f), e), {'part': 'F', 'exc': type(e).__name__})
    acc.sample(case, 1)


def bounds(tier, seed):
    n = sum(2 * (nw + 17) for nw in nw_list(tier))
    return {'formats': 'every (signed, n_word, n_frac -8..n_word+8) for n_word in %s: %d formats, complete' %
                       ('1..70 + {100,128,200,256}' if tier == 'quick' else '1..256', n),
            'operations': 'dtype attr, get_dtype x3 under both configured notations (+ notation switched after construction), Fxp(dtype=) and '
                          'resize(dtype=) with fxp / FXP-upper / Q,q,S,s,UQ,uq,U,u,Uq,QU spellings (m>=0), integer S/U spelling, complex suffix '
                          '(n_word<=52), fxp_sum(dtype=)', 'seed': seed}


def shards(tier, seed):
    return [{'nw': nw} for nw in nw_list(tier)]


def run_shard(sh):
    reset_class_state()
    acc = Acc()
    nw = sh['nw']
    for s in (True, False):
        for nf in range(-8, nw + 9):
            judge_format(acc, Fmt(s, nw, nf))
    return acc


def replay(case):
    reset_class_state()
    acc = Acc()
    judge_format(acc, Fmt(*case['fmt']))
    if 'op' in case:
        return [v for v in acc.violations if v['kind'] == case['op']]
    return acc.violations


def finish(merged, tier, seed):
    if len(merged['states']) < 1000:
        raise HarnessError('too few formats')
    return {}
