"""C17 - scale and bias act as an exact affine wrapper around the stored code (E1)."""
from fractions import Fraction
import numpy as np
from ..runner import Acc, HarnessError
from ..refmodel import Fmt, MODES, quantize, dy, dy_frac, dy_float, is_exact_double
from .. import alphabet as al
from ..common import Fxp, codes, flags, fmt_of, reset_class_state
from .c01 import qval
from .c06 import infer, norm

ID = 'C17'
RULE = ('cases = (format, modes, scale s, bias b, unscaled target u on the quarter-LSB sweep / boundary alphabet, route, carrier); the input is '
        'v = u*s + b and a case is admitted only if v, v-b, (v-b)/s are exact doubles; stored code must be the C01 quantization of u, read-back must '
        'be s*code*LSB + b (when that is an exact double), upper/lower/precision the affine images, flags those of u; inferred formats must be '
        'those of u. non-trivial = s != 1 and b != 0, or rounding/overflow acted; distinct by construction')
ASSUMPTIONS = ['IEEE-754: a quotient whose exact value is representable is computed exactly', 'reference quantizer (C01) and inference (C06)']

SCALES = [Fraction(1), Fraction(2), Fraction(4), Fraction(1, 2), Fraction(1, 4), Fraction(3), Fraction(3, 2), Fraction(5), Fraction(-1),
          Fraction(-1, 2), Fraction(-3)]
BIASES = [Fraction(0), Fraction(1), Fraction(-1), Fraction(1, 2), Fraction(-1, 2), Fraction(10), Fraction(-29, 4), Fraction(10000)]


def as_param(fr, prefer_int):
    """scale / bias as the user would write it: int when integral (and prefer_int), else float"""
    if fr.denominator == 1 and prefer_int:
        return int(fr)
    return float(fr)


def exact_f(fr):
    try:
        return Fraction(float(fr)) == fr
    except OverflowError:
        return False


def judge(acc, f, r, o, s, b, us, route, carrier, int_params, part):
    """us: list of dyadic unscaled targets"""
    ufr = [dy_frac(u) for u in us]
    vs, keep = [], []
    for i, u in enumerate(ufr):
        v = u * s + b
        if exact_f(v) and exact_f(v - b) and exact_f((v - b) / s) and (carrier != 'iarr' or v.denominator == 1):
            vs.append(v)
            keep.append(i)
        else:
            acc.skipped += 1
    if not vs:
        return
    us = [us[i] for i in keep]
    case = {'part': part, 'fmt': list(f), 'mode': [r, o], 'scale': [s.numerator, s.denominator], 'bias': [b.numerator, b.denominator],
            'us': [list(u) for u in us], 'route': route, 'carrier': carrier, 'int_params': int_params}
    q = [quantize(u, f, r, o) for u in us]
    acc.evaluations += len(us)
    acc.transitions += 1
    acc.dim('route', route, len(us))
    acc.dim('carrier', carrier, len(us))
    acc.dim('scale', str(s), len(us))
    nt = sum(1 for e in q if (s != 1 and b != 0) or e[1] or e[2] or e[3])
    acc.nontrivial += nt
    sp, bp = as_param(s, int_params), as_param(b, int_params)
    arr = np.array([int(v) for v in vs], dtype=np.int64) if carrier == 'iarr' else np.array([float(v) for v in vs], dtype=np.float64)
    try:
        kw = dict(signed=f.signed, n_word=f.n_word, n_frac=f.n_frac, rounding=r, overflow=o, scale=sp, bias=bp)
        if route == 'ctor':
            x = Fxp(arr, **kw)
        else:
            x = Fxp(np.full(len(vs), float(b)), **kw)          # initial value b = unscaled 0: exact, raises no flag
            if route == 'call':
                x(arr)
            elif route == 'set_val':
                x.set_val(arr)
            else:
                x[:] = arr
        got = codes(x)
        fl = flags(x)
        gv = np.asarray(x.get_val(), dtype=np.float64).tolist()
        lim = (x.upper, x.lower, x.precision)
    except Exception as e:
        acc.violation('exception', case, '%s %s/%s scale=%r bias=%r route=%s raised %r' % (f.dtype, r, o, sp, bp, route, e), {'part': part, 'route': route})
        return
    expc = [e[0] for e in q]
    sig = '%s %s/%s scale=%r bias=%r route=%s carrier=%s' % (f.dtype, r, o, sp, bp, route, carrier)
    if got != expc:
        i = [j for j in range(len(us)) if got[j] != expc[j]][0]
        acc.violation('code', dict(case, us=[list(us[i])]), '%s: input v=%s (u=(v-b)/s=%s): stored code %d, expected %d'
                      % (sig, vs[i], dy_frac(us[i]), got[i], expc[i]), {'part': part, 'route': route, 'carrier': carrier}, full=case)
        return
    lsb = Fraction(2) ** -f.n_frac
    for i, c in enumerate(expc):
        want = s * c * lsb + b
        if exact_f(want) and exact_f(c * lsb) and exact_f(s * c * lsb):
            if Fraction(gv[i]) != want:
                acc.violation('readback', dict(case, us=[list(us[i])]), '%s: code %d reads back %r, expected s*code*LSB+b = %s' % (sig, c, gv[i], want),
                              {'part': part, 'route': route}, full=case)
                return
            acc.outcome('readback_checked')
    # reads are pure: integer / float / element reads, repeated, leave the codes alone
    if route == 'ctor':
        try:
            for _ in range(2):
                x.astype(int) if f.n_frac <= 0 else None
                x.get_val(), x.astype(float), x(), x.raw(), str(x)
                int(x[0]) if f.n_frac <= 0 and len(expc) else None
            acc.transitions += 6
            gv_again = np.asarray(x.get_val(), dtype=np.float64).tolist()
        except Exception as e:
            acc.violation('exception', case, '%s: repeated reads raised %r' % (sig, e), {'part': part, 'route': 'reads'})
            return
        if codes(x) != expc or [Fraction(v) for v in gv_again] != [Fraction(v) for v in gv]:
            acc.violation('readback', case, '%s: after reading (astype(int), get_val, raw, int(x[0]) ...) the object holds codes %s and reads %s, before %s / %s'
                          % (sig, codes(x)[:4], gv_again[:4], expc[:4], gv[:4]), {'part': part, 'route': 'reads', 'aspect': 'purity'})
            return
    # the same read-back through element routes: item=, index=, .item(), x[i]()
    if route == 'ctor' and len(expc) >= 1:
        for i in sorted({0, len(expc) - 1}):
            want = s * expc[i] * lsb + b
            if not (exact_f(want) and exact_f(expc[i] * lsb) and exact_f(s * expc[i] * lsb)):
                continue
            try:
                reads = (x.get_val(item=i), x.astype(float, item=i), x.item(i), x.get_val(index=i), x[i]())
                acc.transitions += 5
            except Exception as e:
                acc.violation('exception', case, '%s: element read raised %r' % (sig, e), {'part': part, 'route': 'element_read'})
                break
            if [Fraction(float(r)) for r in reads] != [want] * 5:
                acc.violation('readback', dict(case, us=[list(us[i])]), '%s: element %d (code %d) read by item= / astype(item=) / item() / index= / x[i]() gives %s, expected %s'
                              % (sig, i, expc[i], [float(r) for r in reads], want), {'part': part, 'route': 'element_read'}, full=case)
                break
            acc.outcome('element_read_checked')
    ef = (any(e[1] for e in q), any(e[2] for e in q), any(e[3] for e in q))
    if fl != ef:
        acc.violation('flags', case, '%s: flags %s, expected those of the unscaled values %s' % (sig, fl, ef), {'part': part, 'route': route})
    wl = (s * f.hi * lsb + b, s * f.lo * lsb + b, s * lsb)
    if all(exact_f(w) for w in wl):
        try:
            gl = tuple(Fraction(v) for v in lim)
        except Exception:
            gl = lim
        if gl != wl:
            acc.violation('limits', case, '%s: upper/lower/precision %s, expected %s' % (sig, [str(v) for v in gl], [str(v) for v in wl]),
                          {'part': part, 'aspect': 'limits'})
    # history: re-write the same codes raw, read back again, re-derive the limits by a same-format resize
    if route == 'ctor' and carrier == 'farr':
        try:
            x.set_val(np.array(expc, dtype=np.int64), raw=True)
            gv2 = np.asarray(x.get_val(), dtype=np.float64).tolist()
            x.resize(f.signed, f.n_word, f.n_frac)
            lim2 = (x.upper, x.lower, x.precision)
            acc.transitions += 3
        except Exception as e:
            acc.violation('exception', case, '%s: raw re-write / resize raised %r' % (sig, e), {'part': part, 'route': 'raw_rewrite'})
            return
        if codes(x) != expc or [Fraction(v) for v in gv2] != [Fraction(v) for v in gv]:
            acc.violation('readback', case, '%s: after writing the same codes raw the object reads %s..., before %s...' % (sig, gv2[:4], gv[:4]),
                          {'part': part, 'route': 'raw_rewrite'})
        elif all(exact_f(w) for w in wl) and tuple(Fraction(v) for v in lim2) != wl:
            acc.violation('limits', case, '%s: after raw write + resize upper/lower/precision are %s, expected %s'
                          % (sig, [str(v) for v in lim2], [str(v) for v in wl]), {'part': part, 'aspect': 'limits_after_raw'})
        acc.outcome('raw_rewrite_checked')
    acc.states.add((f, s, b))
    acc.sample(dict(case, us=case['us'][:3]), 1)


HISTORIES = ('resize_n_frac', 'resize_dtype', 'resize_n_word_n_int', 'best_sizes', 'like_resized')


def judge_history(acc, f, r, o, s, b, us, int_params, part):
    """a live scaled object is created in ANOTHER format, read (value, limits), then brought to the judged format by a resize route or by
    set_best_sizes, then the values are stored and read: codes, read-back, limits and flags must be those of a fresh object of that format"""
    ufr = [dy_frac(u) for u in us]
    vs = [u * s + b for u in ufr]
    ok = [i for i, (u, v) in enumerate(zip(ufr, vs)) if exact_f(v) and exact_f(v - b) and exact_f((v - b) / s)]
    us, vs = [us[i] for i in ok], [vs[i] for i in ok]
    if not vs:
        return
    sp, bp = as_param(s, int_params), as_param(b, int_params)
    arr = np.array([float(v) for v in vs], dtype=np.float64)
    f0 = Fmt(f.signed, f.n_word + 6, f.n_frac + 5)          # never the format the history ends in
    for how in HISTORIES:
        case = {'part': part, 'history': how, 'fmt': list(f), 'mode': [r, o], 'scale': [s.numerator, s.denominator], 'bias': [b.numerator, b.denominator],
                'us': [list(u) for u in us], 'int_params': int_params}
        acc.evaluations += len(us)
        acc.transitions += 6
        acc.nontrivial += len(us)
        acc.dim('history', how, len(us))
        try:
            x = Fxp(np.full(len(vs), float(b)), signed=f0.signed, n_word=f0.n_word, n_frac=f0.n_frac, rounding=r, overflow=o, scale=sp, bias=bp)
            x.get_val(), x.upper, x.lower, x.precision, x.astype(float), str(x)
            if how == 'resize_n_frac':
                x.resize(n_word=f.n_word, n_frac=f.n_frac)
            elif how == 'resize_dtype':
                x.resize(dtype=f.dtype)
            elif how == 'resize_n_word_n_int':
                x.resize(n_word=f.n_word, n_int=f.n_int)
            elif how == 'like_resized':
                x = Fxp(None, like=x, n_word=f.n_word, n_frac=f.n_frac)
            else:
                x.set_best_sizes(arr)
            g = fmt_of(x)
            x.set_val(arr)
            got, fl = codes(x), flags(x)
            gv = np.asarray(x.get_val(), dtype=np.float64).tolist()
            lim = (x.upper, x.lower, x.precision)
        except Exception as e:
            acc.violation('exception', case, '%s scale=%r bias=%r history %s raised %r' % (f.dtype, sp, bp, how, e), {'part': part, 'history': how})
            continue
        if how != 'best_sizes' and g != f:
            acc.violation('format', case, 'history %s gives format %s, expected %s' % (how, g.dtype, f.dtype), {'part': part, 'history': how})
            continue
        q = [quantize(u, g, r, o) for u in us]
        lsb = Fraction(2) ** -g.n_frac
        sig = '%s %s/%s scale=%r bias=%r after %s (now %s)' % (f0.dtype, r, o, sp, bp, how, g.dtype)
        if got != [e[0] for e in q]:
            acc.violation('code', case, '%s: stored codes %s, expected %s' % (sig, got[:6], [e[0] for e in q][:6]), {'part': part, 'history': how})
            continue
        for i, e in enumerate(q):
            want = s * e[0] * lsb + b
            if exact_f(want) and exact_f(e[0] * lsb) and exact_f(s * e[0] * lsb) and Fraction(gv[i]) != want:
                acc.violation('readback', case, '%s: code %d reads back %r, expected s*code*LSB+b = %s' % (sig, e[0], gv[i], want),
                              {'part': part, 'history': how})
                break
        else:
            ef = (any(e[1] for e in q), any(e[2] for e in q), any(e[3] for e in q))
            wl = (s * g.hi * lsb + b, s * g.lo * lsb + b, s * lsb)
            if fl != ef:
                acc.violation('flags', case, '%s: flags %s, expected %s' % (sig, fl, ef), {'part': part, 'history': how})
            elif all(exact_f(w) for w in wl) and tuple(Fraction(v) for v in lim) != wl:
                acc.violation('limits', case, '%s: upper/lower/precision %s, expected %s' % (sig, [str(v) for v in lim], [str(v) for v in wl]),
                              {'part': part, 'history': how})
            else:
                acc.outcome('history_checked')


def judge_infer(acc, u, s, b, pattern, int_params, part):
    uf = dy_frac(u)
    v = uf * s + b
    if not (exact_f(v) and exact_f(v - b) and exact_f((v - b) / s)):
        acc.skipped += 1
        return
    signed = pattern.get('signed', True)
    if not signed and uf < 0:
        return
    case = {'part': part, 'u': list(u), 'scale': [s.numerator, s.denominator], 'bias': [b.numerator, b.denominator], 'pattern': pattern,
            'int_params': int_params}
    acc.evaluations += 1
    acc.transitions += 1
    acc.nontrivial += 1
    exp = infer([norm(u)], signed, **{k: w for k, w in pattern.items() if k != 'signed'})
    if not (0 <= exp.n_word <= 64):
        acc.skipped += 1
        return
    sp, bp = as_param(s, int_params), as_param(b, int_params)
    vv = int(v) if (v.denominator == 1 and int_params) else float(v)
    try:
        x = Fxp(vv, scale=sp, bias=bp, **pattern)
    except Exception as e:
        acc.violation('exception', case, 'Fxp(%r, scale=%r, bias=%r, %s) raised %r' % (vv, sp, bp, pattern, e), {'part': part})
        return
    if fmt_of(x) != exp:
        acc.violation('inference', case, 'Fxp(%r, scale=%r, bias=%r, %s) inferred %s; the transformed value %s needs %s'
                      % (vv, sp, bp, pattern, x.dtype, uf, exp.dtype), {'part': part, 'aspect': 'inference'})
        return
    nu = norm(u)
    if exp.n_frac >= nu[1]:
        c = nu[0] << (exp.n_frac - nu[1])
        if exp.lo <= c <= exp.hi and (codes(x) != [c] or flags(x) != (False, False, False)):
            acc.violation('inference', case, 'Fxp(%r, scale=%r, bias=%r): code %s flags %s, expected exact code %d' % (vv, sp, bp, codes(x), flags(x), c),
                          {'part': part, 'aspect': 'inference_value'})
    acc.outcome('inference_ok')
    # differential, oracle-free: with any inference option (a coarse error target, a word limit, a rounding mode) the scaled object must
    # size and store exactly like the UNSCALED object built from the transformed value (v-b)/s with the same options
    uu = int(uf) if uf.denominator == 1 and int_params else float(uf)
    for opts in ({'max_error': 2.0 ** -6}, {'max_error': 2.0 ** -3}, {'max_error': 0.5, 'rounding': 'around'}, {'n_word_max': 12}, {'rounding': 'ceil'}):
        acc.transitions += 2
        acc.evaluations += 1
        try:
            xs_ = Fxp(vv, scale=sp, bias=bp, **pattern, **opts)
            xu_ = Fxp(uu, **pattern, **opts)
        except Exception as e:
            acc.violation('exception', dict(case, opts=str(opts)), 'Fxp(%r, scale=%r, bias=%r, %s, %s) raised %r' % (vv, sp, bp, pattern, opts, e), {'part': part, 'aspect': 'inference_opts'})
            continue
        if (fmt_of(xs_), codes(xs_), flags(xs_)) != (fmt_of(xu_), codes(xu_), flags(xu_)):
            acc.violation('inference', dict(case, opts=str(opts)), 'Fxp(%r, scale=%r, bias=%r, %s, %s) gives %s code %s flags %s; the unscaled object built from %r gives %s code %s flags %s'
                          % (vv, sp, bp, pattern, opts, xs_.dtype, codes(xs_), flags(xs_), uu, xu_.dtype, codes(xu_), flags(xu_)), {'part': part, 'aspect': 'inference_opts'})
        else:
            acc.outcome('inference_opts_ok')


def bounds(tier, seed):
    k = 3 if tier == 'quick' else 4
    return {'sweep': 'formats n_word<=%d, n_frac -2..n_word+2 x 10 modes x %d scales x %d biases x every quarter-LSB unscaled target over 3x the range '
                     '(float array, constructor; int-typed and float-typed scale/bias)' % (k, len(SCALES), len(BIASES)),
            'routes': 'call / set_val / indexed assignment and int64-array carrier on n_word<=2 (all modes) and on boundary targets for n_word in '
                      '{8,12,16} x n_frac {0,mid,n}',
            'inference': 'Fxp(v, scale, bias) without sizes, with only n_word, only signed, for u in k/2^f (|k|<=40, f<=3)', 'seed': seed}


def shards(tier, seed):
    out = []
    k = 3 if tier == 'quick' else 4
    for nw in range(1, k + 1):
        for signed in (True, False):
            for si in range(len(SCALES)):
                out.append({'part': 'S', 'nw': nw, 'signed': signed, 'si': si})
    for nw in (8, 12, 16):
        for si in range(len(SCALES)):
            out.append({'part': 'B', 'nw': nw, 'si': si, 'seed': seed})
    for si in range(len(SCALES)):
        out.append({'part': 'I', 'si': si})
    return out


def run_shard(sh):
    reset_class_state()
    acc = Acc()
    s = SCALES[sh['si']]
    if sh['part'] == 'S':
        nw = sh['nw']
        for nf in range(-2, nw + 3):
            f = Fmt(sh['signed'], nw, nf)
            us = [qval(k, f) for k in al.quarter_sweep(f, 1)]
            for b in BIASES:
                for (r, o) in MODES:
                    judge(acc, f, r, o, s, b, us, 'ctor', 'farr', True, 'S')
                    if nw <= 2:
                        for route in ('call', 'set_val', 'setitem'):
                            judge(acc, f, r, o, s, b, us, route, 'farr', False, 'S')
                        judge(acc, f, r, o, s, b, us, 'ctor', 'iarr', True, 'S')
                        judge(acc, f, r, o, s, b, us, 'set_val', 'iarr', True, 'S')
                judge(acc, f, 'around', 'saturate', s, b, us, 'ctor', 'farr', False, 'S')
                if nw <= 3 or nf in (0, nw):
                    judge_history(acc, f, 'around', 'saturate', s, b, us, True, 'S')
                    judge_history(acc, f, 'floor', 'wrap', s, b, us, False, 'S')
    elif sh['part'] == 'B':
        nw = sh['nw']
        for signed in (True, False):
            for nf in sorted({0, nw // 2, nw}):
                f = Fmt(signed, nw, nf)
                ks = sorted({4 * c + off for c in al.code_alphabet(f, sh['seed']) + al.out_of_range_alphabet(f)[:10] for off in al.OFFSETS_Q})
                us = [qval(k, f) for k in ks]
                for b in BIASES:
                    for (r, o) in MODES:
                        judge(acc, f, r, o, s, b, us, 'ctor', 'farr', True, 'B')
                    for route in ('call', 'set_val', 'setitem'):
                        judge(acc, f, 'floor', 'wrap', s, b, us, route, 'farr', False, 'B')
                    judge(acc, f, 'ceil', 'saturate', s, b, us, 'ctor', 'iarr', True, 'B')
                    # single-element stores: the flags of one large-magnitude element must not be masked by the rest of an array
                    for k1 in (4 * f.hi - 2, 4 * f.hi - 1, 4 * f.hi, 4 * (f.hi // 2) + 2, 4 * f.lo + 2, 4 * f.lo + 1, 4 * f.lo):
                        for (r, o) in (('trunc', 'saturate'), ('around', 'wrap'), ('ceil', 'saturate')):
                            judge(acc, f, r, o, s, b, [qval(k1, f)], 'ctor', 'farr', False, 'B1')
                            judge(acc, f, r, o, s, b, [qval(k1, f)], 'set_val', 'farr', True, 'B1')
    else:
        for fbits in range(0, 4):
            for k in range(-40, 41):
                if fbits and k % 2 == 0:
                    continue
                u = (k, fbits)
                for b in BIASES:
                    for ip in (True, False):
                        judge_infer(acc, u, s, b, {}, ip, 'I')
                        judge_infer(acc, u, s, b, {'signed': False}, ip, 'I')
                        judge_infer(acc, u, s, b, {'signed': True}, ip, 'I')
                        for nw in (4, 8, 12):
                            judge_infer(acc, u, s, b, {'n_word': nw}, ip, 'I')
    return acc


def replay(case):
    reset_class_state()
    acc = Acc()
    s, b = Fraction(*case['scale']), Fraction(*case['bias'])
    if case.get('history'):
        judge_history(acc, Fmt(*case['fmt']), case['mode'][0], case['mode'][1], s, b, [tuple(u) for u in case['us']], case['int_params'], case['part'])
        return [v for v in acc.violations if v['case'].get('history') == case['history']]
    if 'u' in case:
        judge_infer(acc, tuple(case['u']), s, b, case['pattern'], case['int_params'], case['part'])
    else:
        judge(acc, Fmt(*case['fmt']), case['mode'][0], case['mode'][1], s, b, [tuple(u) for u in case['us']], case['route'], case['carrier'],
              case['int_params'], case['part'])
    return acc.violations


def finish(merged, tier, seed):
    for k in ('readback_checked', 'inference_ok'):
        if merged['outcomes'].get(k, 0) < 100:
            raise HarnessError('outcome %s under-exercised' % k)
    for k in ('ctor', 'call', 'set_val', 'setitem'):
        if merged['dims']['route'].get(k, 0) < 100:
            raise HarnessError('route %s under-exercised' % k)
    if merged['dims']['carrier'].get('iarr', 0) < 100:
        raise HarnessError('integer carrier under-exercised')
    return {}
