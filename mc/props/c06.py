"""C06 - size inference picks the smallest format that holds the values exactly (E1, definition-level oracle)."""
import math
from fractions import Fraction
import numpy as np
from ..runner import Acc, HarnessError
from ..refmodel import Fmt, min_frac_bits, fits, dy, dy_float, dy_frac, is_exact_double, round_dy
from ..common import Fxp, codes, flags, fmt_of, reset_class_state
from .. import alphabet as al

ID = 'C06'
RULE = ('cases = (values [scalar int / float / 1-element array / array pair / triple], signedness {default, True, False}, which of n_word / '
        'n_frac / n_int are given); the inferred format is compared with a definition-level search (fewest fraction bits making every value '
        'exact, then fewest word bits holding all codes with n_int >= 0), the stored values must be exact with no flag. Capped cases: word <= 64, '
        'error < 1 LSB, inaccuracy iff inexact. non-trivial = the value needs n_frac > 0, or is a bound case (+-2^j, 2^j - LSB), or the input is '
        'an array; distinct by construction')
ASSUMPTIONS = ['an unsigned zero inferring u0/0 is minimal and accepted', 'unsigned inference is judged only for non-negative values',
               'n_word given: n_frac = min(n_word - sign - n_int_needed, exact n_frac) where n_int_needed is taken at the exact fraction length']


def norm(d):
    num, s = d
    if num == 0:
        return (0, 0)
    while s > 0 and num % 2 == 0:
        num //= 2
        s -= 1
    return (num, s)


def exact_frac(ds):
    return min_frac_bits(ds)


def int_bits_needed(ds, signed, nf):
    """fewest integer bits (>= 0) such that all values*2^nf (nf >= exact) fit in sign + n_int + nf bits"""
    cs = [num << (nf - s) for num, s in ds]
    n_int = 0
    sign = 1 if signed else 0
    while not all(fits(c, signed, sign + n_int + nf) for c in cs):
        n_int += 1
    return n_int


def infer(ds, signed, n_word=None, n_frac=None, n_int=None):
    """definition-level expectation -> (Fmt, exact?)"""
    sign = 1 if signed else 0
    ef = exact_frac(ds)
    if n_int is not None and n_frac is not None and n_word is None:
        return Fmt(signed, n_int + n_frac + sign, n_frac)
    if n_int is not None and n_word is not None and n_frac is None:
        return Fmt(signed, n_word, n_word - n_int - sign)
    if n_word is None and n_frac is None:
        ni = int_bits_needed(ds, signed, ef)
        return Fmt(signed, sign + ni + ef, ef)
    if n_word is not None and n_frac is None:
        ni = int_bits_needed(ds, signed, ef)
        return Fmt(signed, n_word, min(n_word - sign - ni, ef))
    if n_frac is not None and n_word is None:
        assert n_frac >= ef
        ni = int_bits_needed(ds, signed, n_frac)
        return Fmt(signed, sign + ni + n_frac, n_frac)
    return Fmt(signed, n_word, n_frac)


def carrier_values(ds, carrier):
    fr = [dy_frac(d) for d in ds]
    if carrier == 'int':
        return int(fr[0]) if len(ds) == 1 and fr[0].denominator == 1 else None
    if carrier == 'float':
        return dy_float(ds[0]) if len(ds) == 1 else None
    if carrier == 'arr1':
        return np.array([dy_float(ds[0])]) if len(ds) == 1 else None
    if carrier == 'list':
        return [dy_float(d) if d[1] else int(dy_frac(d)) for d in ds] if len(ds) > 1 else None
    if carrier == 'ndarray':
        return np.array([dy_float(d) for d in ds]) if len(ds) > 1 else None
    if carrier == 'fxp':
        # the values arrive as an exact fixed-point object of a wide, finer format
        nf = max([d[1] for d in ds] + [0]) + 2
        cs = [d[0] << (nf - d[1]) for d in ds]
        if max(abs(c) for c in cs) >= (1 << 58):
            return None
        from ..common import Fxp as _F
        return _F(np.array(cs, dtype=np.int64) if len(cs) > 1 else cs[0], True, 60, nf, raw=True)
    raise ValueError(carrier)


CFG_ALTS = {'n_word_max': [8, 16, 128], 'max_error': [1e-3, 0.5, 2.0 ** -70], 'rounding': ['around', 'floor'], 'overflow': ['wrap'], 'shifting': ['trunc'],
            'op_input_size': ['best'], 'op_sizing': ['same', 'smallest'], 'const_op_sizing': ['largest'], 'op_method': ['repr'], 'dtype_notation': ['Q'],
            'array_output_type': ['array'], 'array_op_method': ['repr']}


C06_OPTS = ({'rounding': 'around'}, {'rounding': 'ceil'}, {'rounding': 'floor', 'overflow': 'wrap'}, {'shifting': 'trunc', 'rounding': 'fix'})


def aged_config():
    """a Config on which every setting was changed to other valid values and put back: it must be indistinguishable from a fresh one"""
    from ..common import Config
    cfg = Config()
    for attr, alts in CFG_ALTS.items():
        orig = getattr(cfg, attr)
        for a in alts:
            setattr(cfg, attr, a)
        setattr(cfg, attr, orig)
    return cfg


def judge_config_roundtrip(acc, part):
    from ..common import Config
    fresh, aged = Config(), aged_config()
    acc.evaluations += 1
    acc.transitions += sum(len(v) + 1 for v in CFG_ALTS.values())
    acc.nontrivial += 1
    a, b = {k: repr(v) for k, v in vars(fresh).items()}, {k: repr(v) for k, v in vars(aged).items()}
    if a != b:
        diff = {k: (a.get(k), b.get(k)) for k in set(a) | set(b) if a.get(k) != b.get(k)}
        acc.violation('config_state', {'part': part, 'config_roundtrip': True}, 'a Config whose settings were changed and put back differs from a fresh one: %s' % diff,
                      {'part': part, 'aspect': 'config_roundtrip'})
    else:
        acc.outcome('config_roundtrip_ok')


def judge(acc, ds, signed_arg, pattern, carrier, part, cfg=False, opts=None):
    """pattern: dict of given sizes; cfg: the object is built with config= a Config that has a history (aged_config)"""
    ds = [norm(d) for d in ds]
    if any(not is_exact_double(d) for d in ds):
        acc.skipped += 1
        return
    v = carrier_values(ds, carrier)
    if v is None:
        return
    signed = True if signed_arg is None else signed_arg
    if not signed and any(d[0] < 0 for d in ds):
        return
    case = {'part': part, 'vals': [list(d) for d in ds], 'signed': signed_arg, 'pattern': pattern, 'carrier': carrier, 'cfg': cfg, 'opts': opts}
    exp = infer(ds, signed, **pattern)
    if exp.n_word > 64 or exp.n_word < 0:
        acc.skipped += 1
        return
    acc.evaluations += 1
    acc.transitions += 1
    ef = exact_frac(ds)
    acc.dim('pattern', '+'.join(sorted(pattern)) or 'none')
    acc.dim('signed', repr(signed_arg))
    acc.dim('carrier', carrier)
    if ef > 0 or len(ds) > 1 or any(abs(d[0]) & (abs(d[0]) - 1) == 0 or (abs(d[0]) + 1) & abs(d[0]) == 0 for d in ds):
        acc.nontrivial += 1
    kw = dict(pattern)
    if signed_arg is not None:
        kw['signed'] = signed_arg
    if opts:
        kw.update(opts)                       # rounding / overflow / ... : none of them takes part in the inference of exact dyadic inputs
        acc.dim('options', '+'.join('%s=%s' % t for t in sorted(opts.items())))
    src_before = (codes(v), dict(v.status), fmt_of(v)) if carrier == 'fxp' else None
    try:
        if cfg:
            acc.dim('config', 'aged')
            x = Fxp(v, config=aged_config(), **kw)
        else:
            x = Fxp(v, **kw)
        if carrier == 'fxp':
            x2 = Fxp(v, **kw)
            if (codes(v), dict(v.status), fmt_of(v)) != src_before or (fmt_of(x2), codes(x2), flags(x2)) != (fmt_of(x), codes(x), flags(x)):
                acc.violation('source_changed', case, 'Fxp(<Fxp %s>, %s): the source object changed (%s -> %s) or a second construction from it differs'
                              % (v.dtype, kw, src_before[1], dict(v.status)), {'part': part, 'aspect': 'fxp_source'})
                return
        gf = fmt_of(x)
        gc = codes(x)
        fl = flags(x)
    except Exception as e:
        acc.violation('exception', case, 'Fxp(%r, %s) raised %r' % (v, kw, e), {'part': part, 'pattern': '+'.join(sorted(pattern))})
        return
    acc.states.add(gf)
    if gf != exp:
        acc.violation('format', case, 'Fxp(%r, %s) inferred %s, the minimal exact format is %s' % (v, kw, gf.dtype, exp.dtype),
                      {'part': part, 'pattern': '+'.join(sorted(pattern)) or 'none', 'signed': repr(signed_arg)})
        return
    if x.n_int != exp.n_int:
        acc.violation('n_int', case, 'Fxp(%r, %s): n_int %r, expected %d' % (v, kw, x.n_int, exp.n_int), {'part': part})
    # exactness whenever the expected format can hold the values
    nf = exp.n_frac
    holds = nf >= ef and all(fits(num << (nf - s), signed, exp.n_word) for num, s in ds)
    if holds:
        acc.outcome('exact_expected')
        expc = [num << (nf - s) for num, s in ds]
        if gc != expc or fl != (False, False, False):
            acc.violation('exactness', case, 'Fxp(%r, %s) -> %s: codes %s flags %s, expected exact codes %s and no flag' % (v, kw, gf.dtype, gc, fl, expc),
                          {'part': part, 'pattern': '+'.join(sorted(pattern)) or 'none'})
    else:
        acc.outcome('format_only')
    acc.sample(case, 1)


def judge_capped(acc, f, signed_arg, part):
    """non-dyadic-looking doubles / doubles needing more than 64 bits: word <= 64, error < LSB, inaccuracy iff inexact"""
    case = {'part': part, 'float': f.hex(), 'signed': signed_arg}
    signed = True if signed_arg is None else signed_arg
    if f < 0 and not signed:
        return
    acc.evaluations += 1
    acc.transitions += 1
    acc.nontrivial += 1
    try:
        x = Fxp(f) if signed_arg is None else Fxp(f, signed=signed_arg)
        gf = fmt_of(x)
        c = codes(x)[0]
        fl = flags(x)
    except Exception as e:
        acc.violation('exception', case, 'Fxp(%r) raised %r' % (f, e), {'part': part})
        return
    v = Fraction(f)
    stored = Fraction(c) * Fraction(2) ** (-gf.n_frac)
    lsb = Fraction(2) ** (-gf.n_frac)
    inexact = stored != v
    need = infer([norm(dy(f))], signed)
    acc.outcome('capped' if need.n_word > 64 else 'uncapped')
    if gf.n_word > 64:
        acc.violation('cap', case, 'Fxp(%r) inferred %s: word exceeds the configured maximum 64' % (f, gf.dtype), {'part': part})
    elif not (abs(stored - v) < lsb) or fl[0] or fl[1]:
        acc.violation('cap_error', case, 'Fxp(%r) inferred %s stores %s: error %s not below one LSB / flags %s' % (f, gf.dtype, stored, abs(stored - v), fl),
                      {'part': part})
    elif fl[2] != inexact:
        acc.violation('cap_flag', case, 'Fxp(%r) -> %s: inaccuracy flag %s but stored value %s the input' % (f, gf.dtype, fl[2], 'differs from' if inexact else 'equals'),
                      {'part': part})
    elif need.n_word <= 64 and gf != need and need.n_frac <= 20 and abs(norm(dy(f))[0]) < (1 << 40):
        # minimality / exactness is only claimed for dyadics k/2^f with f <= 20, |k| < 2^40 (for other doubles only the cap clause)
        acc.violation('format', case, 'Fxp(%r) inferred %s, minimal exact format is %s' % (f, gf.dtype, need.dtype), {'part': part, 'pattern': 'none'})
    acc.sample(case, 1)


def judge_capped_array(acc, fs, part):
    """arrays whose union of requirements exceeds 64 bits"""
    case = {'part': part, 'floats': [f.hex() for f in fs]}
    acc.evaluations += 1
    acc.transitions += 1
    acc.nontrivial += 1
    try:
        x = Fxp(fs)
        gf = fmt_of(x)
        cs = codes(x)
        fl = flags(x)
    except Exception as e:
        acc.violation('exception', case, 'Fxp(%r) raised %r' % (fs, e), {'part': part})
        return
    lsb = Fraction(2) ** (-gf.n_frac)
    errs = [abs(Fraction(c) * lsb - Fraction(f)) for c, f in zip(cs, fs)]
    acc.outcome('capped_array')
    if gf.n_word > 64 or any(e >= lsb for e in errs) or fl[0] or fl[1] or fl[2] != any(e != 0 for e in errs):
        acc.violation('cap_error', case, 'Fxp(%r) inferred %s: errors %s (LSB %s), flags %s' % (fs, gf.dtype, [str(e) for e in errs], lsb, fl),
                      {'part': part, 'array': True})


PATTERNS_KEYS = ('none', 'n_word', 'n_frac', 'n_int+n_frac', 'n_int+n_word')


def patterns_for(ds, signed):
    """the five 'unspecified' patterns with the stated ranges"""
    ds = [norm(d) for d in ds]
    ef = exact_frac(ds)
    ni = int_bits_needed(ds, signed, ef)
    sign = 1 if signed else 0
    need = sign + ni + ef
    out = [{}]
    for nw in range(max(1, need - 2), min(64, need + ef + 3) + 1):
        out.append({'n_word': nw})
    for nf in range(ef, min(63, ef + 3) + 1):
        out.append({'n_frac': nf})
    out.append({'n_int': ni, 'n_frac': ef})
    out.append({'n_int': ni + 1, 'n_frac': ef + 1})
    out.append({'n_int': ni, 'n_word': need})
    out.append({'n_int': ni, 'n_word': need + 2})
    return out


def boundary_family():
    out = []
    for j in range(0, 40):
        for f in (0, 1, 2, 3, 5, 8, 13, 20):
            if j + f >= 40:
                continue
            p = 1 << (j + f)
            for num in (p, p - 1, p + 1):
                out.append((num, f))
                out.append((-num, f))
    return out


ARR_LETTERS = [(0, 0), (1, 0), (-1, 0), (3, 1), (-3, 2), (7, 0), (-8, 0), (8, 0), (255, 4), (-256, 4), (1, 6), ((1 << 20) + 1, 10)]


def bounds(tier, seed):
    return {'a_dyadics': 'all k/2^f, f<=%d, |k|<=%d as int / float / 1-element array x signedness {default, True, False} x 5 patterns of given sizes '
                         '(n_word from needed-2 to needed+f+3, n_frac exact..exact+3, n_int+n_frac, n_int+n_word)' % ((4, 256) if tier == 'quick' else (6, 1024)),
            'b_boundary': '+-{2^j, 2^j-2^-f, 2^j+2^-f}, j in 0..39, f in {0,1,2,3,5,8,13,20}, j+f<40 (%d values) x same' % len(boundary_family()),
            'c_arrays': 'all ordered pairs%s from a 12-letter alphabet (list and ndarray carriers) x signedness x patterns'
                        % (' and triples' if tier != 'quick' else ' (triples: thorough tier)'),
            'r_buffer_reuse': 'the same ndarray object rewritten in place between two constructions (all ordered letter pairs x 4 third letters)',
            'd_capped': 'doubles 1/k (k=3..64), 0.1*10^j, pi*2^j, (2^53-1)*2^e for e in -110..-40, int-part+tiny-fraction sums, seed extras; '
                        'arrays whose union needs more than 64 bits',
            'seed': seed}


def shards(tier, seed):
    out = []
    fmax, kmax = (4, 256) if tier == 'quick' else (6, 1024)
    for f in range(0, fmax + 1):
        for part in range(8):
            out.append({'part': 'a', 'f': f, 'kmax': kmax, 'slice': [part, 8]})
    for part in range(16):
        out.append({'part': 'b', 'slice': [part, 16]})
    for i in range(len(ARR_LETTERS)):
        out.append({'part': 'c', 'i': i, 'triples': tier != 'quick'})
    out.append({'part': 'd', 'seed': seed})
    out.append({'part': 'r'})
    return out


def run_shard(sh):
    reset_class_state()
    acc = Acc()
    part = sh['part']
    if part in ('a', 'b'):
        if part == 'a':
            f = sh['f']
            vals = [(k, f) for k in range(-sh['kmax'], sh['kmax'] + 1) if f == 0 or k % 2 != 0 or k == 0]
        else:
            vals = boundary_family()
        j, n = sh['slice']
        for d in vals[j::n]:
            for sg in (None, True, False):
                signed = True if sg is None else sg
                if not signed and d[0] < 0:
                    continue
                for pat in patterns_for([d], signed):
                    for carrier in ('int', 'float', 'arr1'):
                        judge(acc, [d], sg, pat, carrier, part)
                    judge(acc, [d], sg, pat, 'float', part, True)
                    judge(acc, [d], sg, pat, 'fxp', part)
                    for oi, opts in enumerate(C06_OPTS):
                        judge(acc, [d], sg, pat, ('float', 'int', 'arr1')[oi % 3], part, False, opts)
    elif part == 'c':
        a = ARR_LETTERS[sh['i']]
        for b in ARR_LETTERS:
            combos = [[a, b]]
            if sh['triples']:
                combos += [[a, b, c] for c in ARR_LETTERS]
            for ds in combos:
                for sg in (None, True, False):
                    signed = True if sg is None else sg
                    if not signed and any(d[0] < 0 for d in ds):
                        continue
                    for pat in patterns_for(ds, signed):
                        for carrier in ('list', 'ndarray'):
                            judge(acc, ds, sg, pat, carrier, 'c')
    elif part == 'r':
        judge_config_roundtrip(acc, 'r')
        for a in ARR_LETTERS:
            for b in ARR_LETTERS:
                for c in ARR_LETTERS[::3]:
                    for sg in (None, False):
                        judge_buffer_reuse(acc, [a, b], [b, c], sg, 'r')
                        judge_buffer_reuse(acc, [c, a, b], [a, a, c], sg, 'r')
    elif part == 'd':
        fl = []
        for k in range(3, 65):
            if k & (k - 1):
                fl += [1.0 / k, -1.0 / k, 7.0 / k]
        for j in range(-8, 9):
            fl += [0.1 * 10 ** j, math.pi * 2.0 ** j, -math.e * 2.0 ** (3 * j)]
        for e in range(-110, -39, 5):
            fl += [math.ldexp((1 << 53) - 1, e), -math.ldexp((1 << 53) - 1, e)]
        for ip in (1, 2 ** 10, 2 ** 20 + 1, 2 ** 30 - 1, 2 ** 40 + 5):
            for e in (-20, -40, -50, -52):
                v = ip + 2.0 ** e
                if Fraction(v) == ip + Fraction(2) ** e:
                    fl += [v, -v]
        import random
        rnd = random.Random('c06/%d' % sh['seed'])
        for _ in range(40):
            fl.append(math.ldexp(rnd.getrandbits(53) | 1, rnd.randint(-100, -20)) * rnd.choice((1, -1)))
        for f in fl:
            for sg in (None, True, False):
                judge_capped(acc, f, sg, 'd')
        for arr in ([0.3, 2.0 ** 9 + 0.5], [2.0 ** -60, 1000.0], [1.0 / 3, 2.0 ** 20], [-0.1, 2.0 ** 12 + 0.25], [2.0 ** 40 + 1, 2.0 ** -30],
                    [0.7, -2.0 ** 10], [1e-12, 12345.678]):
            judge_capped_array(acc, arr, 'd')
    return acc


def judge_buffer_reuse(acc, v1, v2, signed_arg, part):
    """the SAME ndarray object, modified in place between two constructions: the second inference must see the new values"""
    d1, d2 = [norm(d) for d in v1], [norm(d) for d in v2]
    signed = True if signed_arg is None else signed_arg
    if not signed and any(d[0] < 0 for d in d1 + d2):
        return
    case = {'part': part, 'reuse': True, 'v1': [list(d) for d in d1], 'v2': [list(d) for d in d2], 'signed': signed_arg}
    acc.evaluations += 2
    acc.transitions += 2
    acc.nontrivial += 1
    kw = {} if signed_arg is None else {'signed': signed_arg}
    try:
        buf = np.array([dy_float(d) for d in d1], dtype=np.float64)
        x1 = Fxp(buf, **kw)
        buf[:] = [dy_float(d) for d in d2]
        x2 = Fxp(buf, **kw)
        x3 = Fxp(buf.copy(), **kw)
    except Exception as e:
        acc.violation('exception', case, 'buffer reuse %s -> %s raised %r' % (v1, v2, e), {'part': part, 'aspect': 'reuse'})
        return
    e1, e2 = infer(d1, signed), infer(d2, signed)
    if fmt_of(x1) != e1 or fmt_of(x2) != e2 or fmt_of(x3) != e2 or flags(x2) != (False, False, False) \
            or codes(x2) != [num << (e2.n_frac - sh) for num, sh in d2]:
        acc.violation('reuse', case, 'Fxp(buf) %s then buf[:] = new values, Fxp(buf) gives %s codes %s flags %s; expected %s (a fresh copy gives %s)'
                      % (x1.dtype, x2.dtype, codes(x2), flags(x2), e2.dtype, x3.dtype), {'part': part, 'aspect': 'reuse'})
    acc.outcome('buffer_reuse_ok')


def replay(case):
    reset_class_state()
    acc = Acc()
    if case.get('reuse'):
        judge_buffer_reuse(acc, [tuple(d) for d in case['v1']], [tuple(d) for d in case['v2']], case['signed'], case['part'])
        return acc.violations
    if case.get('config_roundtrip'):
        judge_config_roundtrip(acc, case['part'])
    elif 'float' in case:
        judge_capped(acc, float.fromhex(case['float']), case['signed'], case['part'])
    elif 'floats' in case:
        judge_capped_array(acc, [float.fromhex(h) for h in case['floats']], case['part'])
    else:
        judge(acc, [tuple(d) for d in case['vals']], case['signed'], case['pattern'], case['carrier'], case['part'], case.get('cfg', False), case.get('opts'))
    return acc.violations


def finish(merged, tier, seed):
    for k in ('exact_expected', 'format_only', 'capped', 'uncapped', 'capped_array'):
        if merged['outcomes'].get(k, 0) < 5:
            raise HarnessError('outcome %s under-exercised: %s' % (k, merged['outcomes'].get(k)))
    for p in ('none', 'n_word', 'n_frac', 'n_frac+n_int', 'n_int+n_word'):
        if merged['dims']['pattern'].get(p, 0) < 100:
            raise HarnessError('pattern %s under-exercised: %s' % (p, merged['dims']['pattern']))
    return {}
