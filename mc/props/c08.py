"""C08 - arithmetic into an imposed format == exact result quantized into it under the governing configuration (E1)."""
import numpy as np
from ..runner import Acc, HarnessError
from ..refmodel import Fmt, MODES, quantize, quantize_code, add_fmt, mul_fmt, min_frac_bits, min_word, dy
from ..common import Fxp, fx, codes, flags, fmt_of, reset_class_state, build, AGED, ENVS, obs

ID = 'C08'
RULE = ('cases = (operand format pair, op, imposed-format mechanism [sizing policy | out | out_like | constant with op_input_size and '
        'const_op_sizing], method raw/repr, governing modes, code pair); the result must equal the exact result quantized once into the '
        'imposed format under the modes of the configuration it carries, with overflow/underflow/inaccuracy flags to match; unary - + abs '
        'exact when representable. non-trivial = the exact result is not representable in the imposed format; distinct by construction')
ASSUMPTIONS = ['imposed format of a sizing policy: signed = any operand signed; same -> (n_int, n_frac) of the first operand; largest/smallest '
               '-> component-wise max/min of n_int and n_frac (docs/config.md)', 'constant conversion for op_input_size=best follows C06',
               'domain: operands with n_int >= 0, no scale/bias, result n_word >= 1, no unsigned target with signed operands']

OPS = ('+', '-', '*')
C08_ENVS = tuple(e for e in ENVS if e != 'cfg:op_method=repr')      # the method is passed explicitly here
SIZINGS = ('same', 'largest', 'smallest')


def grid(kmin, kmax):
    out = []
    for nw in range(kmin, kmax + 1):
        for s in (True, False):
            for nf in range(0, nw - (1 if s else 0) + 1):
                out.append(Fmt(s, nw, nf))
    return out


def sized(policy, fxm, fym):
    signed = fxm.signed or fym.signed
    if policy == 'same':
        ni, nf = fxm.n_int, fxm.n_frac
    elif policy == 'largest':
        ni, nf = max(fxm.n_int, fym.n_int), max(fxm.n_frac, fym.n_frac)
    elif policy == 'smallest':
        ni, nf = min(fxm.n_int, fym.n_int), min(fxm.n_frac, fym.n_frac)
    elif policy == 'optimal':
        return None
    return Fmt(signed, int(signed) + ni + nf, nf)


def exact(op, fxm, fym, a, b):
    """exact result as dyadic (num, s)"""
    if op == '*':
        return (a * b, fxm.n_frac + fym.n_frac)
    s = max(fxm.n_frac, fym.n_frac)
    av, bv = a << (s - fxm.n_frac), b << (s - fym.n_frac)
    return (av + bv if op == '+' else av - bv, s)


def do_op(op, x, y, **kw):
    f = {'+': fx.add, '-': fx.sub, '*': fx.mul}[op]
    return f(x, y, **kw)


def compare(acc, case, z, fz, gov, exps, part, sig):
    """exps: list of dyadic exact results (row-major); gov: (rounding, overflow) the result must carry"""
    q = [quantize(d, fz, gov[0], gov[1]) for d in exps]
    nt = sum(1 for e in q if e[1] or e[2] or e[3])
    acc.evaluations += len(exps)
    acc.nontrivial += nt
    acc.outcome('inexact_or_overflow', nt)
    acc.outcome('representable', len(exps) - nt)
    if fmt_of(z) != fz:
        acc.violation('format', case, '%s: result format %s, imposed format is %s' % (sig, z.dtype, fz.dtype), dict(part=part, **case.get('_sig', {})))
        return
    if (z.config.rounding, z.config.overflow) != tuple(gov):
        acc.violation('config', case, '%s: result carries %s/%s, governing configuration is %s/%s'
                      % (sig, z.config.rounding, z.config.overflow, gov[0], gov[1]), dict(part=part, **case.get('_sig', {})))
        return
    got = codes(z)
    exp = [e[0] for e in q]
    for c in set(exp):
        acc.states.add((fz, c))
    if got != exp:
        i = [j for j in range(len(exp)) if j >= len(got) or got[j] != exp[j]][0]
        acc.violation('value', dict(case, fail_index=i), '%s: element %d: result code %s, expected %d (exact %d/2^%d quantized %s/%s into %s)'
                      % (sig, i, got[i] if i < len(got) else None, exp[i], exps[i][0], exps[i][1], gov[0], gov[1], fz.dtype),
                      dict(part=part, **case.get('_sig', {})))
        return
    ef = (any(e[1] for e in q), any(e[2] for e in q), any(e[3] for e in q) or case.get('by') == 'env:flagged')   # operands' inaccuracy travels
    if flags(z) != ef:
        acc.violation('flags', case, '%s: flags %s expected %s' % (sig, flags(z), ef), dict(part=part, **case.get('_sig', {})))


def other_mode(m):
    i = MODES.index(tuple(m))
    return MODES[(i + 3) % len(MODES)]


def mk_operand(fmt, cs, shape, mode, by='raw', **kw):
    return build(fmt, cs, tuple(shape) if shape else (), by, rounding=mode[0], overflow=mode[1], **kw)


def judge_sizing(acc, fxm, fym, xs, ys, op, policy, method, mode, part, by='raw'):
    fz = sized(policy, fxm, fym)
    case = {'part': part, 'fx': list(fxm), 'fy': list(fym), 'xs': list(xs), 'ys': list(ys), 'op': op, 'policy': policy, 'method': method,
            'mode': list(mode), 'by': by, '_sig': {'op': op, 'policy': policy, 'method': method}}
    if fz.n_word < 1:
        acc.skipped += 1
        return
    acc.transitions += 1
    acc.dim('policy', policy)
    acc.dim('method', method)
    acc.dim('mode', '%s/%s' % tuple(mode))
    try:
        x = mk_operand(fxm, xs, (len(xs), 1), mode, by)
        y = mk_operand(fym, ys, (1, len(ys)), other_mode(mode), by)
        before = (obs(x), obs(y), str(x.val.dtype), str(y.val.dtype))
        z = do_op(op, x, y, sizing=policy, method=method)
        if (obs(x), obs(y), str(x.val.dtype), str(y.val.dtype)) != before:
            acc.violation('operand_changed', case, '%s %s %s sizing=%s method=%s changed an operand: %s -> %s'
                          % (fxm.dtype, op, fym.dtype, policy, method, before, (obs(x), obs(y))), {'part': part, 'op': op, 'policy': policy, 'method': method, 'aspect': 'operand'})
            return
    except Exception as e:
        acc.violation('exception', case, '%s %s %s sizing=%s method=%s raised %r' % (fxm.dtype, op, fym.dtype, policy, method, e),
                      {'part': part, 'op': op, 'policy': policy, 'method': method})
        return
    exps = [exact(op, fxm, fym, a, b) for a in xs for b in ys]
    compare(acc, case, z, fz, mode, exps, part, '%s %s %s sizing=%s method=%s modes x=%s/%s y=%s/%s'
            % ((fxm.dtype, op, fym.dtype, policy, method) + tuple(mode) + tuple(other_mode(mode))))
    acc.sample({k: v for k, v in case.items() if k != '_sig'}, 1)


def judge_target(acc, fxm, fym, xs, ys, op, tfmt, kind, tmode, method, part):
    case = {'part': part, 'fx': list(fxm), 'fy': list(fym), 'xs': list(xs), 'ys': list(ys), 'op': op, 'target': list(tfmt), 'kind': kind,
            'tmode': list(tmode), 'method': method, '_sig': {'op': op, 'kind': kind, 'method': method}}
    if not tfmt.signed and (fxm.signed or fym.signed):
        acc.skipped += 1
        return
    acc.transitions += 1
    acc.dim('target_kind', kind)
    xmode = other_mode(tmode)
    try:
        x = mk_operand(fxm, xs, (len(xs), 1), xmode)
        y = mk_operand(fym, ys, (1, len(ys)), other_mode(xmode))
        t = Fxp(np.zeros((len(xs), len(ys))), tfmt.signed, tfmt.n_word, tfmt.n_frac, rounding=tmode[0], overflow=tmode[1])
        if kind in ('out_like_flagged', 'cfg_out_like_flagged'):
            # the template has a history: it overflowed and lost accuracy before (its flags are raised, its codes are back to 0)
            t.set_val(np.full((len(xs), len(ys)), 1e9))
            t.set_val(np.full((len(xs), len(ys)), -1e9 - 0.3))
            t.set_val(np.zeros((len(xs), len(ys))))
        before = (obs(x), obs(y), str(x.val.dtype), str(y.val.dtype))
        if kind == 'out':
            z = do_op(op, x, y, method=method, out=t)
        elif kind in ('out_like', 'out_like_flagged'):
            z = do_op(op, x, y, method=method, out_like=t)
        elif kind == 'cfg_out':
            x.config.op_out = t
            x.config.op_method = method
            z = x + y if op == '+' else (x - y if op == '-' else x * y)
        elif kind in ('cfg_out_like', 'cfg_out_like_flagged'):
            x.config.op_out_like = t
            x.config.op_method = method
            z = x + y if op == '+' else (x - y if op == '-' else x * y)
        elif kind == 'np_out':
            z = {'+': np.add, '-': np.subtract, '*': np.multiply}[op](x, y, out=t)
        else:
            raise ValueError(kind)
    except Exception as e:
        acc.violation('exception', case, '%s %s %s %s=%s raised %r' % (fxm.dtype, op, fym.dtype, kind, tfmt.dtype, e), {'part': part, 'op': op, 'kind': kind})
        return
    if (obs(x), obs(y), str(x.val.dtype), str(y.val.dtype)) != before:
        acc.violation('operand_changed', case, '%s %s %s %s=%s method=%s changed an operand: %s -> %s'
                      % (fxm.dtype, op, fym.dtype, kind, tfmt.dtype, method, before[:2], (obs(x), obs(y))), {'part': part, 'op': op, 'kind': kind, 'aspect': 'operand'})
        return
    if kind in ('out', 'cfg_out', 'np_out') and z is not t:
        acc.violation('identity', case, 'result of %s is not the out object' % kind, {'part': part, 'op': op, 'kind': kind})
        return
    if kind in ('out_like', 'cfg_out_like') and (z is t or flags(t) != (False, False, False) or any(codes(t))):
        acc.violation('identity', case, 'out_like template was returned or modified', {'part': part, 'op': op, 'kind': kind})
        return
    if kind.endswith('_flagged') and (z is t or flags(t) != (True, True, True) or any(codes(t))):
        acc.violation('identity', case, 'flagged out_like template was returned or modified', {'part': part, 'op': op, 'kind': kind})
        return
    exps = [exact(op, fxm, fym, a, b) for a in xs for b in ys]
    compare(acc, case, z, tfmt, tmode, exps, part, '%s %s %s %s=%s(%s/%s) method=%s' % ((fxm.dtype, op, fym.dtype, kind, tfmt.dtype) + tuple(tmode) + (method,)))
    acc.sample({k: v for k, v in case.items() if k != '_sig'}, 1)


def best_fmt(d):
    """format Fxp(c) infers for a scalar constant (signed by default)"""
    nf = min_frac_bits([d])
    code = d[0] << (nf - d[1]) if nf >= d[1] else d[0] >> (d[1] - nf)
    return Fmt(True, min_word([code], True, nf), nf), code


def judge_const(acc, fxm, xs, c, side, op, input_size, policy, mode, part, reconf=False):
    """x (array of all codes) op constant c (dyadic), or c op x for side='left'.  reconf: the live operand first runs the same operation
    with the same constant under ANOTHER configuration (modes, op_input_size, const_op_sizing), is then reconfigured by attribute
    assignment, and the judged operation follows"""
    case = {'part': part, 'fx': list(fxm), 'xs': list(xs), 'const': list(c), 'side': side, 'op': op, 'input_size': input_size,
            'policy': policy, 'mode': list(mode), 'reconf': reconf, '_sig': {'op': op, 'side': side, 'input_size': input_size, 'policy': policy}}
    cf = c[0] / float(1 << c[1])
    cv = int(cf) if c[1] == 0 else cf
    # constant -> fixed-point constant (reference rule)
    if input_size == 'same':
        cc, co, cu, ci, _ = quantize(c, fxm, mode[0], mode[1])
        fc = fxm
        cmode = mode
    else:
        fc, cc = best_fmt(c)
        ci = False
        cmode = ('trunc', 'saturate')
    first_is_const = side == 'left' and op == '-'
    f1, f2 = (fc, fxm) if first_is_const else (fxm, fc)
    gov = cmode if first_is_const else mode
    if policy == 'optimal':
        fz = mul_fmt(f1, f2) if op == '*' else add_fmt(f1, f2)
    else:
        fz = sized(policy, f1, f2)
    if fz.n_word < 1 or fc.n_int < 0 or fz.n_word > 60:
        acc.skipped += 1
        return
    acc.transitions += 1
    acc.dim('input_size', input_size)
    acc.dim('const_policy', policy)
    acc.dim('side', side)
    try:
        if reconf:
            # one deviation at a time: the earlier configuration differs in exactly the named respect
            om = other_mode(mode) if reconf == 'modes' else mode
            x = mk_operand(fxm, xs, (len(xs),), om,
                           op_input_size=('best' if input_size == 'same' else 'same') if reconf == 'input_size' else input_size,
                           const_op_sizing=('same' if policy != 'same' else 'optimal') if reconf == 'policy' else policy)
            for _ in range(2):
                if side == 'right':
                    x + cv if op == '+' else (x - cv if op == '-' else x * cv)
                else:
                    cv + x if op == '+' else (cv - x if op == '-' else cv * x)
            x.config.rounding, x.config.overflow = mode
            x.config.op_input_size = input_size
            x.config.const_op_sizing = policy
            acc.dim('history', 'op-reconfigure(%s)-op' % reconf)
        else:
            x = mk_operand(fxm, xs, (len(xs),), mode, op_input_size=input_size, const_op_sizing=policy)
        if side == 'right':
            z = x + cv if op == '+' else (x - cv if op == '-' else x * cv)
        else:
            z = cv + x if op == '+' else (cv - x if op == '-' else cv * x)
    except Exception as e:
        acc.violation('exception', case, '%s %s const %r side=%s input_size=%s sizing=%s raised %r' % (fxm.dtype, op, cv, side, input_size, policy, e),
                      {'part': part, 'op': op, 'input_size': input_size, 'policy': policy})
        return
    exps = []
    for a in xs:
        if first_is_const:
            exps.append(exact(op, fc, fxm, cc, a))
        else:
            exps.append(exact(op, fxm, fc, a, cc))
    q = [quantize(d, fz, gov[0], gov[1]) for d in exps]
    sig = '%s %s const %r (side=%s, op_input_size=%s -> %s code %d, const_op_sizing=%s, modes %s/%s)' % (
        fxm.dtype, op, cv, side, input_size, fc.dtype, cc, policy, mode[0], mode[1])
    acc.evaluations += len(exps)
    nt = sum(1 for e in q if e[1] or e[2] or e[3])
    acc.nontrivial += nt
    if fmt_of(z) != fz:
        acc.violation('format', case, '%s: result format %s, expected %s' % (sig, z.dtype, fz.dtype), dict(part=part, **case['_sig']))
        return
    got = codes(z)
    if got != [e[0] for e in q]:
        i = [j for j in range(len(q)) if got[j] != q[j][0]][0]
        acc.violation('value', dict(case, xs=[xs[i]]), '%s: x code %d: result code %d, expected %d' % (sig, xs[i], got[i], q[i][0]),
                      dict(part=part, **case['_sig']), full=case)
        return
    ef = (any(e[1] for e in q), any(e[2] for e in q), any(e[3] for e in q) or ci)
    if flags(z) != ef:
        acc.violation('flags', case, '%s: flags %s expected %s' % (sig, flags(z), ef), dict(part=part, **case['_sig']))
    acc.sample({k: v for k, v in case.items() if k != '_sig'}, 1)


def judge_unary(acc, fmt, part):
    cs = list(range(fmt.lo, fmt.hi + 1))
    for name, f, m in (('neg', lambda x: -x, lambda c: -c), ('pos', lambda x: +x, lambda c: c), ('abs', lambda x: abs(x), lambda c: abs(c))):
        rep = [c for c in cs if fmt.lo <= m(c) <= fmt.hi]
        case = {'part': part, 'fmt': list(fmt), 'unary': name, 'codes': rep}
        if not rep:
            continue
        acc.evaluations += len(rep)
        acc.transitions += 1
        acc.nontrivial += sum(1 for c in rep if c < 0)
        try:
            x = Fxp(np.array(rep, dtype=np.int64), fmt.signed, fmt.n_word, fmt.n_frac, raw=True)
            z = f(x)
            got = codes(z)
        except Exception as e:
            acc.violation('exception', case, 'unary %s on %s raised %r' % (name, fmt.dtype, e), {'part': part, 'unary': name})
            continue
        if fmt_of(z) != fmt or got != [m(c) for c in rep] or flags(z) != (False, False, False) or codes(x) != rep:
            acc.violation('unary', case, 'unary %s on %s: format %s codes %s flags %s' % (name, fmt.dtype, z.dtype, got[:8], flags(z)),
                          {'part': part, 'unary': name})
        for c in rep[:1] + rep[-1:]:
            xs = Fxp(c, fmt.signed, fmt.n_word, fmt.n_frac, raw=True)
            zs = f(xs)
            acc.transitions += 1
            if codes(zs) != [m(c)] or fmt_of(zs) != fmt:
                acc.violation('unary', dict(case, codes=[c], scalar=True), 'scalar unary %s on %s code %d gave %s' % (name, fmt.dtype, c, codes(zs)),
                              {'part': part, 'unary': name})
        acc.outcome('unary_ok')


CONSTS = sorted({(k, j) for j in range(0, 4) for k in (-40, -17, -8, -3, -1, 0, 1, 2, 3, 5, 8, 13, 31, 40)}, key=lambda d: (d[1], d[0]))
TMODES = (('around', 'wrap'), ('floor', 'saturate'), ('ceil', 'wrap'))


def bounds(tier, seed):
    k = 4 if tier == 'quick' else 5
    return {'P1_policies': 'all ordered pairs of the %d formats with 2<=n_word<=%d, 0<=n_frac<=n_word-sign x every code pair (broadcast) x {+,-,*} x '
                           '{same,largest,smallest} x {raw,repr} x 10 modes on the first operand (a different pair on the second)' % (len(grid(2, k)), k),
            'P2_targets': 'out= / out_like= / config.op_out / config.op_out_like / numpy out= (also with a template whose flags are already raised) for every target format of the grid x 3 target mode pairs x operand pairs from a 6-format subset x 3 ops x '
                          '{raw,repr}',
            'P3_constants': '%d dyadic constants k/2^j on either side x op_input_size {same,best} x const_op_sizing {optimal,same,largest,smallest} x '
                            'all codes of every grid format x 3 ops x %d modes' % (len(CONSTS), 3 if tier == 'quick' else 10),
            'P4_unary': '- + abs on every code of all formats n_word<=8, n_frac in 0..n_word, whose result is representable',
            'P6_far_targets': 'operand formats n_word in {4,8,12,16,24}: boundary code pairs x 3 ops into signed targets of 12/31/52 bits whose n_frac is '
                              'the exact result\'s + {-40,-20,-9,9,11,17,25,33,41,47} x out / op_out_like / numpy out',
            'P5_boundary': 'formats n_word in {6,8,12} x n_frac {0,mid,max}: boundary code pairs x 3 ops x 3 policies x raw/repr x 4 modes',
            'seed': seed}


def shards(tier, seed):
    out = []
    k = 4 if tier == 'quick' else 5
    g = grid(2, k)
    for i in range(len(g)):
        out.append({'part': 'P1', 'k': k, 'i': i})
        out.append({'part': 'P3', 'k': k, 'i': i, 'nmodes': 3 if tier == 'quick' else 10})
    for ti in range(len(g)):
        out.append({'part': 'P2', 'k': k, 'ti': ti})
    for nw in range(1, 9):
        out.append({'part': 'P4', 'nw': nw})
    for nw in (6, 8, 12):
        out.append({'part': 'P5', 'nw': nw})
    for nw in (4, 8, 12, 16, 24):
        out.append({'part': 'P6', 'nw': nw})
    return out


def run_shard(sh):
    reset_class_state()
    acc = Acc()
    part = sh['part']
    if part == 'P1':
        g = grid(2, sh['k'])
        fxm = g[sh['i']]
        xs = list(range(fxm.lo, fxm.hi + 1))
        for fym in g:
            ys = list(range(fym.lo, fym.hi + 1))
            for op in OPS:
                for policy in SIZINGS:
                    for method in ('raw', 'repr'):
                        for mode in MODES:
                            judge_sizing(acc, fxm, fym, xs, ys, op, policy, method, mode, 'P1')
                        judge_sizing(acc, fxm, fym, xs, ys, op, policy, method, ('around', 'saturate'), 'P1', 'value')
                        env = C08_ENVS[(sh['i'] + 2 * g.index(fym) + OPS.index(op) + SIZINGS.index(policy)) % len(C08_ENVS)]
                        for e_ in (C08_ENVS if max(fxm.n_word, fym.n_word) <= 2 else (env,)):
                            judge_sizing(acc, fxm, fym, xs, ys, op, policy, method, ('floor', 'wrap') if method == 'raw' else ('ceil', 'saturate'), 'P1', 'env:' + e_)
                        how = AGED[(sh['i'] + g.index(fym) + OPS.index(op) + SIZINGS.index(policy)) % len(AGED)]
                        judge_sizing(acc, fxm, fym, xs, ys, op, policy, method, ('floor', 'wrap') if method == 'raw' else ('around', 'saturate'), 'P1', how)
    elif part == 'P2':
        g = grid(2, sh['k'])
        tfmt = g[sh['ti']]
        sub = [g[j] for j in range(0, len(g), max(1, len(g) // 6))][:6]
        for fxm in sub:
            xs = list(range(fxm.lo, fxm.hi + 1))
            for fym in sub:
                ys = list(range(fym.lo, fym.hi + 1))
                for op in OPS:
                    for tmode in TMODES:
                        for kind in ('out', 'out_like'):
                            for method in ('raw', 'repr'):
                                judge_target(acc, fxm, fym, xs, ys, op, tfmt, kind, tmode, method, 'P2')
                        for kind in ('cfg_out', 'cfg_out_like', 'np_out', 'out_like_flagged', 'cfg_out_like_flagged'):
                            judge_target(acc, fxm, fym, xs, ys, op, tfmt, kind, tmode, 'raw', 'P2')
    elif part == 'P3':
        g = grid(2, sh['k'])
        fxm = g[sh['i']]
        xs = list(range(fxm.lo, fxm.hi + 1))
        modes = MODES[:: max(1, len(MODES) // sh['nmodes'])][:sh['nmodes']] if sh['nmodes'] < 10 else MODES
        for c in CONSTS:
            for op in OPS:
                for side in ('right', 'left'):
                    for isz in ('same', 'best'):
                        for policy in ('optimal', 'same', 'largest', 'smallest'):
                            for mode in modes:
                                judge_const(acc, fxm, xs, c, side, op, isz, policy, mode, 'P3')
                            for rc in ('modes', 'policy', 'input_size'):
                                judge_const(acc, fxm, xs, c, side, op, isz, policy, modes[(c[0] + c[1]) % len(modes)], 'P3', rc)
    elif part == 'P4':
        nw = sh['nw']
        for s in (True, False):
            for nf in range(0, nw + 1):
                judge_unary(acc, Fmt(s, nw, nf), 'P4')
    elif part == 'P5':
        nw = sh['nw']
        fs = [Fmt(s, nw, nf) for s in (True, False) for nf in sorted({0, nw // 2, nw - (1 if s else 0)})]
        for fxm in fs:
            xs = sorted({fxm.lo, fxm.lo + 1, 0, 1, fxm.hi - 1, fxm.hi, fxm.hi // 3} | ({-1} if fxm.signed else set()))
            for fym in fs + [Fmt(True, 6, 2), Fmt(False, 8, 8)]:
                ys = sorted({fym.lo, fym.lo + 1, 0, 1, fym.hi - 1, fym.hi, fym.hi // 3} | ({-1} if fym.signed else set()))
                for op in OPS:
                    for policy in SIZINGS:
                        for method in ('raw', 'repr'):
                            for mode in (('trunc', 'saturate'), ('around', 'wrap'), ('ceil', 'saturate'), ('floor', 'wrap')):
                                judge_sizing(acc, fxm, fym, xs, ys, op, policy, method, mode, 'P5')
    elif part == 'P6':
        # imposed formats whose binary point is FAR from the exact result's (the result is shifted by many bits before it is stored)
        nw = sh['nw']
        fs = [Fmt(s, nw, nf) for s in (True, False) for nf in sorted({0, nw // 2})]
        for fxm in fs:
            xs = sorted({fxm.lo, fxm.lo + 1, 0, 1, fxm.hi - 1, fxm.hi, fxm.hi // 3} | ({-1} if fxm.signed else set()))
            for fym in fs:
                ys = sorted({fym.lo, 0, 1, fym.hi, fym.hi // 3} | ({-1} if fym.signed else set()))
                for op in OPS:
                    nfz = (fxm.n_frac + fym.n_frac) if op == '*' else max(fxm.n_frac, fym.n_frac)
                    for d in FAR_SHIFTS:
                        for tw in (12, 31, 52):
                            tfmt = Fmt(True, tw, nfz + d)
                            for tmode in TMODES[:2]:
                                for kind, method in (('out', 'raw'), ('out', 'repr'), ('cfg_out_like', 'raw'), ('np_out', 'raw')):
                                    if method == 'repr' and (abs(d) + 2 * nw > 50):
                                        continue                # the repr method goes through doubles: only where those are exact
                                    if tmode[1] == 'wrap' and 2 * nw + 1 + max(d, 0) >= 62:
                                        acc.skipped += 1        # C01 defines wrap only for scaled magnitudes below 2^62
                                        continue
                                    judge_target(acc, fxm, fym, xs, ys, op, tfmt, kind, tmode, method, 'P6')
    return acc


FAR_SHIFTS = (-40, -20, -9, 9, 11, 17, 25, 33, 41, 47)


def replay(case):
    reset_class_state()
    acc = Acc()
    p = case['part']
    if 'unary' in case:
        judge_unary(acc, Fmt(*case['fmt']), p)
        return [v for v in acc.violations if v['case'].get('unary') == case['unary']]
    if 'const' in case:
        judge_const(acc, Fmt(*case['fx']), case['xs'], tuple(case['const']), case['side'], case['op'], case['input_size'], case['policy'],
                    tuple(case['mode']), p, case.get('reconf', False))
    elif 'target' in case:
        judge_target(acc, Fmt(*case['fx']), Fmt(*case['fy']), case['xs'], case['ys'], case['op'], Fmt(*case['target']), case['kind'],
                     tuple(case['tmode']), case['method'], p)
    else:
        judge_sizing(acc, Fmt(*case['fx']), Fmt(*case['fy']), case['xs'], case['ys'], case['op'], case['policy'], case['method'],
                     tuple(case['mode']), p, case.get('by', 'raw'))
    return acc.violations


def finish(merged, tier, seed):
    for k in ('inexact_or_overflow', 'representable', 'unary_ok'):
        if merged['outcomes'].get(k, 0) < 100:
            raise HarnessError('outcome %s under-exercised' % k)
    for d, letters in (('policy', SIZINGS), ('method', ('raw', 'repr')), ('target_kind', ('out', 'out_like', 'cfg_out', 'cfg_out_like', 'np_out', 'out_like_flagged')), ('input_size', ('same', 'best')),
                       ('const_policy', ('optimal', 'same', 'largest', 'smallest')), ('side', ('left', 'right'))):
        for l in letters:
            if merged['dims'].get(d, {}).get(l, 0) < 50:
                raise HarnessError('%s=%s under-exercised' % (d, l))
    return {}
