"""C02 - every produced object is well-formed (codes in range, n_int / upper / lower / precision / dtype consistent); saturation goes to
the bound on the input's own side.  E2 (BFS over programs on a heap of two objects, invariant on every object of every state) + E1."""
import math
from fractions import Fraction
import numpy as np
from ..runner import Acc, HarnessError
from ..refmodel import Fmt, ROUNDINGS, quantize
from ..common import Fxp, fx, mk, codes, flags, fmt_of, reset_class_state, store, ROUTES, carry
from ..explore import bfs, Disabled
from .c01 import BIG_E, _dy_of_float

ID = 'C02'
RULE = ('E2 cases = programs (event histories over a heap of the two most recent objects) of public operations: construct, writes by 3 '
        'routes in 5 value classes, resize (full, by dtype, partial), like / equal / Fxp(x), + - * / // % under every sizing policy, '
        'constants, unary, shifts under every shifting mode, bitwise, indexing, reductions, reset, deepcopy; the well-formedness invariant '
        'is evaluated on every object of every reached state. E1 cases = (format, rounding, route, huge input) for the saturation clause. '
        'non-trivial = the transition produced a new canonical heap state / the input is out of range; distinct by canonical state')
ASSUMPTIONS = ['states with n_word > 52 are observed but not expanded (pruned-by-bound)', 'an event that raises is not a state',
               'complex objects are not generated']

F0 = (Fmt(True, 4, 1), Fmt(False, 3, 0), Fmt(True, 5, -1), Fmt(False, 4, 4), Fmt(True, 3, 4), Fmt(True, 2, 0), Fmt(False, 5, 2), Fmt(True, 5, 5))
SHAPES = ((), (3,), (2, 2))
SIZINGS = ('optimal', 'same', 'fit', 'largest', 'smallest')


def wellformed(x):
    """-> list of violated clauses"""
    bad = []
    if not isinstance(x, Fxp):
        return ['not an Fxp: %r' % type(x)]
    try:
        f = fmt_of(x)
        cs = codes(x)
    except Exception as e:
        return ['unreadable object: %r' % (e,)]
    if f.n_word < 0:
        return ['negative n_word %d' % f.n_word]
    lo, hi = f.lo if f.n_word > 0 else 0, f.hi if f.n_word > 0 else 0
    out = [c for c in cs if not (lo <= c <= hi)]
    if out:
        bad.append('code %d outside [%d, %d] of %s' % (out[0], lo, hi, f.dtype))
    if x.n_int != f.n_word - f.n_frac - (1 if f.signed else 0):
        bad.append('n_int %r != n_word - n_frac - sign = %d' % (x.n_int, f.n_word - f.n_frac - (1 if f.signed else 0)))
    lsb = Fraction(2) ** (-f.n_frac)
    sc, bi = Fraction(x.scale), Fraction(x.bias)
    exp = {'upper': sc * hi * lsb + bi, 'lower': sc * lo * lsb + bi, 'precision': sc * lsb}
    for k, e in exp.items():
        v = getattr(x, k)
        try:
            if f.n_word <= 52:
                ok = not isinstance(v, complex) and Fraction(v) == e
            else:
                # beyond 52 bits the limit is not an exact double any more: demand the correctly rounded one
                ok = not isinstance(v, complex) and float(v) == float(e)
            if not ok:
                bad.append('%s = %r, expected %s' % (k, v, e))
        except Exception:
            bad.append('%s = %r unreadable' % (k, v))
    if x.dtype != f.dtype:
        bad.append('dtype string %r does not spell %s' % (x.dtype, f.dtype))
    if sorted(x.status.keys()) != ['extended_prec', 'inaccuracy', 'overflow', 'underflow']:
        bad.append('status record keys %s' % sorted(x.status.keys()))
    return bad


# ------------------------------------------------------------------------------------------ events
def value_of_class(f, cls):
    lsb = 2.0 ** -f.n_frac
    return {'exact': f.hi * lsb, 'inexact': (f.lo + 0.25) * lsb, 'over': (f.hi + 1.75) * lsb, 'under': (f.lo - 1.25) * lsb,
            'huge': 1e300, 'neghuge': -1e300, 'bigint': 2 ** 70, 'negbigint': -2 ** 70}[cls]


def build_menu():
    ev = []
    for fi in range(len(F0)):
        ev.append(('new', fi, 'hi'))
    for fi in range(len(F0)):
        if F0[fi].signed:
            ev.append(('new', fi, 'lo'))        # a negative second object for every signed format (sources of indexed writes, operands)
    for rt in ('set_val', 'call', 'setitem'):
        for cls in ('exact', 'inexact', 'over', 'under', 'huge'):
            ev.append(('set', rt, cls))
    ev += [('set', 'set_val', 'neghuge'), ('set', 'set_val', 'bigint'), ('set', 'call', 'negbigint'), ('raw', 'hi+5'), ('raw', 'lo-5')]
    for fi in range(len(F0)):
        ev.append(('resize', fi))
    ev += [('resize_dtype', 1), ('resize_dtype', 2), ('resize_nfrac', 0), ('resize_nfrac', 3), ('resize_nfrac', -2), ('resize_nword', 2),
           ('resize_nword', 7), ('resize_signed', True), ('resize_signed', False), ('resize_nint_nfrac', 1, 2), ('resize_nint_nword', 2, 6)]
    ev += [('like=',), ('like()',), ('Fxp(a)',), ('equal',), ('fxp_like',), ('equal_index',), ('set_val_index_fxp',), ('setitem_fxp',)]
    for op in ('+', '-', '*', '/', '//', '%'):
        for sz in SIZINGS:
            ev.append(('bin', op, sz))
    ev += [('const', '+', 1), ('const', '*', 2.5), ('const', '-', 0.25), ('rconst', '-', 3), ('const', '/', 2)]
    ev += [('unary', 'neg'), ('unary', 'pos'), ('unary', 'abs')]
    for m in ('expand', 'trunc', 'keep'):
        ev += [('shift', '<<', 1, m), ('shift', '>>', 1, m), ('shift', '<<', 3, m), ('shift', '>>', 4, m)]
    ev += [('bit', '~'), ('bit', '&3'), ('bit', '|b'), ('bit', '^5')]
    ev += [('index', '0'), ('index', '0:2')]
    ev += [('red', 'sum'), ('red', 'cumsum'), ('red', 'max'), ('red', 'min'), ('red', 'T'), ('red', 'flatten'), ('red', 'np.sum0'), ('red', 'np.prod')]
    ev += [('reset',), ('deepcopy',), ('cfg', 'overflow', 'wrap'), ('cfg', 'rounding', 'around')]
    return ev


MENU = build_menu()
OPS = {'+': lambda a, b: a + b, '-': lambda a, b: a - b, '*': lambda a, b: a * b, '/': lambda a, b: a / b, '//': lambda a, b: a // b,
       '%': lambda a, b: a % b}


def _shaped(v, shape):
    return np.full(shape, v) if shape else v


def apply_event(heap, ev):
    """heap = [a, b]; returns new heap.  Raises Disabled for events that do not apply; any other exception = not a state"""
    a, b = heap
    k = ev[0]
    shape = tuple(np.shape(a.val))
    if k == 'new':
        f = F0[ev[1]]
        c = f.hi if ev[2] == 'hi' else f.lo
        return [a, Fxp(_shaped(c, shape) if shape else c, f.signed, f.n_word, f.n_frac, raw=True)]
    if k == 'set':
        v = value_of_class(fmt_of(a), ev[2])
        if isinstance(v, int) and shape:
            raise Disabled()
        if ev[1] == 'set_val':
            a.set_val(_shaped(v, shape))
        elif ev[1] == 'call':
            a(_shaped(v, shape))
        else:
            a[(0,) * len(shape) if shape else ()] = v
        return [a, b]
    if k == 'raw':
        f = fmt_of(a)
        c = f.hi + 5 if ev[1] == 'hi+5' else f.lo - 5
        a.set_val(_shaped(c, shape), raw=True)
        return [a, b]
    if k == 'resize':
        f = F0[ev[1]]
        a.resize(f.signed, f.n_word, f.n_frac)
        return [a, b]
    if k == 'resize_dtype':
        a.resize(dtype=F0[ev[1]].dtype)
        return [a, b]
    if k == 'resize_nfrac':
        a.resize(n_frac=ev[1])
        return [a, b]
    if k == 'resize_nword':
        a.resize(n_word=ev[1])
        return [a, b]
    if k == 'resize_signed':
        a.resize(signed=ev[1])
        return [a, b]
    if k == 'resize_nint_nfrac':
        a.resize(n_int=ev[1], n_frac=ev[2])
        return [a, b]
    if k == 'resize_nint_nword':
        a.resize(n_int=ev[1], n_word=ev[2])
        return [a, b]
    if k == 'like=':
        return [Fxp(a, like=b), a]
    if k == 'like()':
        return [a.like(b), a]
    if k == 'Fxp(a)':
        return [Fxp(a), a]
    if k == 'equal':
        t = Fxp(_shaped(0, shape), like=b)
        return [t.equal(a), a]
    if k == 'fxp_like':
        return [fx.fxp_like(b, a), a]
    if k in ('equal_index', 'set_val_index_fxp', 'setitem_fxp'):
        # write ONE element of a from the (first element of the) other heap object, which may have another format / signedness
        if not shape:
            raise Disabled()
        src = b[(0,) * len(np.shape(b.val))] if np.shape(b.val) else b
        idx = (0,) * len(shape)
        if k == 'equal_index':
            a.equal(src, index=idx)
        elif k == 'set_val_index_fxp':
            a.set_val(src, index=idx)
        else:
            a[idx] = src
        return [a, b]
    if k == 'bin':
        a.config.op_sizing = ev[2]
        if ev[1] in ('/', '//', '%') and any(c == 0 for c in codes(b)):
            raise Disabled()
        return [OPS[ev[1]](a, b), a]
    if k == 'const':
        return [OPS[ev[1]](a, ev[2]), a]
    if k == 'rconst':
        return [ev[2] - a, a]
    if k == 'unary':
        return [{'neg': lambda: -a, 'pos': lambda: +a, 'abs': lambda: abs(a)}[ev[1]](), a]
    if k == 'shift':
        a.config.shifting = ev[3]
        return [(a << ev[2]) if ev[1] == '<<' else (a >> ev[2]), a]
    if k == 'bit':
        if ev[1] == '~':
            return [~a, a]
        if ev[1] == '&3':
            return [a & 3, a]
        if ev[1] == '^5':
            return [a ^ 5, a]
        if a.n_word != b.n_word or shape:
            raise Disabled()
        return [a | b, a]
    if k == 'index':
        if not shape:
            raise Disabled()
        return [a[0] if ev[1] == '0' else a[0:2], a]
    if k == 'red':
        if not shape:
            raise Disabled()
        f = {'sum': lambda: a.sum(), 'cumsum': lambda: a.cumsum(), 'max': lambda: a.max(), 'min': lambda: a.min(), 'T': lambda: a.T,
             'flatten': lambda: a.flatten(), 'np.sum0': lambda: np.sum(a, axis=0), 'np.prod': lambda: np.prod(a)}[ev[1]]
        return [f(), a]
    if k == 'reset':
        a.reset()
        return [a, b]
    if k == 'deepcopy':
        return [a.deepcopy(), a]
    if k == 'cfg':
        setattr(a.config, ev[1], ev[2])
        return [a, b]
    raise ValueError(ev)


class Prog:
    __slots__ = ('heap', 'raised')


class ProgSystem:
    def __init__(self, root):
        self.root = root          # (fmt index, code class, shape index, scaled?)

    def reset(self):
        reset_class_state()

    def initial(self):
        return [()]

    def build(self, h):
        fi, cc, si, scaled = self.root
        f = F0[fi]
        shape = SHAPES[si]
        c = {'lo': f.lo, 'hi': f.hi, 'mid': -1 if f.signed else 0}[cc]
        kw = {'scale': 2, 'bias': 1} if scaled else {}
        a = Fxp(_shaped(c, shape) if shape else c, f.signed, f.n_word, f.n_frac, raw=True, **kw)
        b = Fxp(_shaped(1.5, shape) if shape else 1.5, True, 6, 2)
        st = Prog()
        st.heap = [a, b]
        st.raised = False
        for i, ev in enumerate(h):
            try:
                new = apply_event(st.heap, ev)
            except Disabled:
                raise
            except Exception:
                if i == len(h) - 1:
                    raise Disabled()          # an event that raises is not a state (C02 constrains returned objects)
                raise
            if not all(isinstance(o, Fxp) for o in new):
                raise Disabled()
            st.heap = new
        return st

    def events(self, st):
        if any(o.n_word > 52 for o in st.heap) or any(o.vdtype == complex for o in st.heap):
            return []                          # pruned by bound
        return MENU

    def canon(self, st):
        out = []
        for o in st.heap:
            c = o.config
            out.append((fmt_of(o), tuple(codes(o)), tuple(np.shape(o.val)), flags(o), c.rounding, c.overflow, c.shifting, c.op_sizing,
                        o.scale, o.bias))
        return tuple(out)

    def check(self, st, h, acc):
        case = {'part': 'P', 'root': list(self.root), 'history': [list(e) for e in h]}
        for i, o in enumerate(st.heap):
            for b in wellformed(o):
                acc.violation('illformed', case, 'root %s program %s: object %d (%s): %s' % (list(self.root), [list(e) for e in h], i,
                                                                                             getattr(o, 'dtype', '?'), b),
                              {'part': 'P', 'event': h[-1][0] if h else None, 'clause': b.split(' ')[0]})
        if any(o.n_word > 52 for o in st.heap):
            acc.outcome('pruned_by_bound')
        acc.nontrivial += 1 if h else 0
        acc.sample(case, 1)


ROOTS = [(fi, cc, si, False) for fi in range(len(F0)) for cc in ('lo', 'mid', 'hi') for si in range(len(SHAPES))] + \
        [(0, 'hi', 0, True), (1, 'hi', 1, True), (6, 'lo', 2, True)]


# ------------------------------------------------------------------------------------------ E1 saturation clause
def saturation(acc, nw):
    mags = []
    for e in BIG_E:
        p = math.ldexp(1.0, e)
        mags += [p, math.nextafter(p, 0.0)]
    mags.append(1.7976931348623157e308)
    ints = []
    for e in list(range(30, 71, 4)) + [62, 63, 64, 65, 100, 128, 500, 1000]:
        for dl in (-1, 0, 1):
            ints.append((1 << e) + dl)
    for signed in (True, False):
        for nf in (0, 1, nw, nw + 8):
            f = Fmt(signed, nw, nf)
            for rnd in ROUNDINGS:
                for rt in ROUTES:
                    for sgn in (1, -1):
                        for v in mags:
                            one_sat(acc, f, rnd, rt, _dy_of_float(sgn * v), 'float')
                            if rt in ('ctor', 'set_val'):
                                one_sat(acc, f, rnd, rt, _dy_of_float(sgn * v), 'arr1.float64')
                                one_sat(acc, f, rnd, rt, _dy_of_float(sgn * v), 'list')
                        for v in ints:
                            one_sat(acc, f, rnd, rt, (sgn * v, 0), 'int')
                            if rt in ('ctor', 'set_val') and rnd in ('trunc', 'around'):
                                # the same Python integers inside containers (NumPy picks int64 / uint64 / float64 / object for them)
                                for cr in ('list', 'nlist', 'tuple', 'ntuple', 'ltuple'):
                                    one_sat(acc, f, rnd, rt, (sgn * v, 0), cr)


def one_sat(acc, f, rnd, rt, d, carrier):
    case = {'part': 'S', 'fmt': list(f), 'rounding': rnd, 'route': rt, 'val': list(d), 'carrier': carrier}
    ec, eo, eu, ei, r = quantize(d, f, rnd, 'saturate')
    acc.evaluations += 1
    acc.transitions += 1
    if eo or eu:
        acc.nontrivial += 1
        acc.outcome('saturated_high' if eo else 'saturated_low')
    else:
        acc.outcome('in_range')
    acc.dim('carrier', carrier)
    try:
        x, idx = store(rt, carry(d, carrier), f, rnd, 'saturate')
        o = x if idx is None else x[idx]
        c = codes(o)[0]
        fl = flags(x)
    except Exception as e:
        acc.violation('exception', case, 'fmt=%s %s saturate route=%s %s input %d/2^%d raised %r' % (f.dtype, rnd, rt, carrier, d[0], d[1], e),
                      {'part': 'S', 'carrier': carrier, 'route': rt})
        return
    bad = wellformed(x)
    if c != ec or fl[:2] != (eo, eu) or bad:
        side = 'upper' if d[0] > 0 else 'lower'
        acc.violation('saturation', case, 'fmt=%s %s saturate route=%s %s input %s%d bits: stored %d flags %s, expected the %s side: %d %s %s'
                      % (f.dtype, rnd, rt, carrier, '-' if d[0] < 0 else '', abs(d[0]).bit_length() - d[1], c, fl[:2], side, ec, (eo, eu), bad),
                      {'part': 'S', 'carrier': carrier, 'route': rt})
    acc.sample(case, 1)


# ------------------------------------------------------------------------------------------ views and copies
DERIVE = ('slice', 'index_row', 'copy', 'T', 'element', 'reversed')
WIDEN = ('n_word+8', 'n_word+8,n_frac+2', 'signed_flip', 'dtype', 'n_word=64', 'narrow')
WRITE = ('setitem', 'set_val_index', 'set_val_raw_index', 'whole', 'inplace_or')


def views_case(acc, f, shape, derive, widen, write):
    """parent -> derived object (view / shallow copy / transposed) -> the derived one is re-formatted -> a value legal only in the NEW format
    is written through it: every object alive afterwards (the parent above all) must still be well-formed"""
    case = {'part': 'V', 'fmt': list(f), 'shape': list(shape), 'derive': derive, 'widen': widen, 'write': write}
    n = int(np.prod(shape))
    acc.evaluations += 1
    acc.transitions += 3
    acc.nontrivial += 1
    acc.dim('derive', derive)
    acc.dim('widen', widen)
    try:
        p = Fxp(np.array([f.lo, f.hi, 0, 1 if f.hi >= 1 else 0][:n] + [0] * max(0, n - 4), dtype=np.int64).reshape(shape), f.signed, f.n_word, f.n_frac, raw=True)
        if derive == 'slice':
            c = p[0:2]
        elif derive == 'index_row':
            c = p[1] if len(shape) == 2 else p[1:2]
        elif derive == 'copy':
            c = p.copy()
        elif derive == 'T':
            c = p.T
        elif derive == 'reversed':
            c = p[::-1]
        else:
            c = p[(0,) * len(shape)]
        if widen == 'n_word+8':
            c.resize(n_word=f.n_word + 8)
        elif widen == 'n_word+8,n_frac+2':
            c.resize(n_word=f.n_word + 8, n_frac=f.n_frac + 2)
        elif widen == 'signed_flip':
            c.resize(signed=not f.signed, n_word=f.n_word + 8)
        elif widen == 'dtype':
            c.resize(dtype=Fmt(f.signed, f.n_word + 8, f.n_frac).dtype)
        elif widen == 'n_word=64':
            c.resize(n_word=64)
        else:
            c.resize(n_word=max(1, f.n_word - 1))
        g = fmt_of(c)
        big = g.hi if g.hi > f.hi else g.lo              # legal in the new format, outside the parent's (when widened)
        idx = (0,) * np.ndim(c.val)
        if write == 'setitem' and idx:
            c[idx] = g.fvalue(big) if g.n_word <= 52 else big
        elif write == 'set_val_index' and idx:
            c.set_val(g.fvalue(big) if g.n_word <= 52 else big, index=idx)
        elif write == 'set_val_raw_index' and idx:
            c.set_val(big, raw=True, index=idx)
        elif write == 'inplace_or':
            c |= (big if big >= 0 else 1)
        else:
            c.set_val(big, raw=True)
    except Exception as e:
        acc.violation('exception', case, '%s%s %s / %s / %s raised %r' % (f.dtype, shape, derive, widen, write, e), {'part': 'V', 'derive': derive, 'widen': widen, 'write': write})
        return
    for nm, o in (('parent', p), ('derived', c)):
        bad = wellformed(o)
        if bad:
            acc.violation('illformed', case, '%s%s: after %s, resize(%s) and a write (%s) through the derived object the %s is ill-formed: %s'
                          % (f.dtype, shape, derive, widen, write, nm, bad[:2]), {'part': 'V', 'derive': derive, 'widen': widen, 'who': nm})
            return
    acc.outcome('views_ok')


def views(acc, nw):
    for signed in (True, False):
        for nf in sorted({0, nw // 2}):
            f = Fmt(signed, nw, nf)
            for shape in ((4,), (2, 2)):
                for d in DERIVE:
                    for w in WIDEN:
                        for wr in WRITE:
                            views_case(acc, f, shape, d, w, wr)


# ------------------------------------------------------------------------------------------ driver
def bounds(tier, seed):
    return {'programs': '%d roots (8 formats x {lo, -1/0, hi} x {scalar,(3,),(2,2)} + 3 scaled) x menu of %d events, BFS depth %d with dedup on '
                        '(format, codes, shape, status, rounding, overflow, shifting, op_sizing, scale, bias) of both heap objects%s; states with '
                        'n_word>52 not expanded' % (len(ROOTS), len(MENU), 2 if tier == 'quick' else 3,
                                                    '' if tier == 'quick' else ' from scalar / 1-d roots at an extreme code and scaled roots (depth 2 from the others); depth 2 without dedup'),
            'saturation': 'formats n_word in {1,2,8,31,32,33,52} x n_frac in {0,1,n,n+8} x 5 roundings x 4 routes x floats +-{2^e, 2^e-ulp: e in %s}, '
                          'DBL_MAX, Python ints +-(2^e+d), e in 30..70 step 4 + {62..65,100,128,500,1000}' % (BIG_E,),
            'seed': seed}


def shards(tier, seed):
    out = []
    for ri in range(len(ROOTS)):
        if tier == 'quick':
            out.append({'part': 'P', 'root': ri, 'first': None, 'depth': 2, 'dedup': True})
        else:
            # depth 3 from the roots at an extreme code that are scalars or 1-d arrays, and from the scaled roots (the (2,2) and
            # mid-value roots reach the same formats and modes; they keep the depth-2 searches): about half of the work of all roots
            fi_, cc_, si_, sc_ = ROOTS[ri]
            if sc_ or (cc_ != 'mid' and si_ < 2):
                for e1 in range(0, len(MENU), 8):
                    out.append({'part': 'P', 'root': ri, 'first': [e1, min(len(MENU), e1 + 8)], 'depth': 3, 'dedup': True, '_cost': 5})
            else:
                out.append({'part': 'P', 'root': ri, 'first': None, 'depth': 2, 'dedup': True})
            out.append({'part': 'P', 'root': ri, 'first': None, 'depth': 2, 'dedup': False})
    for nw in (1, 2, 8, 31, 32, 33, 52):
        out.append({'part': 'S', 'nw': nw})
    for nw in (2, 8, 16, 44, 52):
        out.append({'part': 'V', 'nw': nw})
    return out


def run_shard(sh):
    reset_class_state()
    acc = Acc()
    if sh['part'] == 'P':
        system = ProgSystem(ROOTS[sh['root']])
        if sh['first'] is None:
            roots, depth = [()], sh['depth']
        else:
            roots, depth = [(e,) for e in MENU[sh['first'][0]:sh['first'][1]]], sh['depth'] - 1
        n, t, deep = bfs(system, acc, depth, dedup=sh['dedup'], roots=roots)
        acc.extra.setdefault('depths', set()).add((sh['dedup'], deep + (0 if sh['first'] is None else 1)))
    elif sh['part'] == 'V':
        views(acc, sh['nw'])
    else:
        saturation(acc, sh['nw'])
    return acc


def replay(case):
    reset_class_state()
    acc = Acc()
    if case['part'] == 'P':
        system = ProgSystem(tuple(case['root']))
        h = tuple(tuple(e) for e in case['history'])
        try:
            st = system.build(h)
        except Disabled:
            return []
        system.check(st, h, acc)
    elif case['part'] == 'V':
        views_case(acc, Fmt(*case['fmt']), tuple(case['shape']), case['derive'], case['widen'], case['write'])
    else:
        one_sat(acc, Fmt(*case['fmt']), case['rounding'], case['route'], tuple(case['val']), case['carrier'])
    return acc.violations


def finish(merged, tier, seed):
    oc = merged['outcomes']
    for k in ('new_state', 'revisit', 'disabled', 'saturated_high', 'saturated_low'):
        if oc.get(k, 0) < 10:
            raise HarnessError('outcome %s under-exercised: %s' % (k, oc.get(k)))
    return {'bfs_depths_completed': sorted(merged['extra'].get('depths', []))}
