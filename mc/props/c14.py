"""C14 - shifts scale by powers of two: lossless in expand mode, arithmetic otherwise; shift by 0 is the identity (E1)."""
from fractions import Fraction
import numpy as np
from ..runner import Acc, HarnessError
from ..refmodel import Fmt, overflow_code
from .. import alphabet as al
from ..common import AGED, ENVS, Fxp, codes, flags, fmt_of, reset_class_state, obs, build

ID = 'C14'
RULE = ('cases = (format, shifting mode, overflow mode, direction, shift count, code or code array); expand: value(x<<n) == value(x)*2^n and '
        'value(x>>n) == value(x)/2^n exactly, no flag; trunc/keep: format unchanged, >> is floor(code/2^n), << is code*2^n if representable else the '
        'clamped or the wrapped code; n == 0: identity of value and format; operand unchanged. non-trivial = bits would be lost without expansion, '
        'or a negative code; distinct by construction')
ASSUMPTIONS = ['for an overflowing << in trunc/keep mode either the saturated or the wrapped code is accepted, as the property states',
               'shift counts limited by n_word + n <= 62']

MODES = ('expand', 'trunc', 'keep')
C14_ENVS = tuple(e for e in ENVS if e != 'flagged')     # shift results are deep copies of x: its status record travels with them


def judge(acc, f, mode, ovf, d, n, cs, part, by='raw', inplace=False):
    """cs: list (array operand) or int (scalar)"""
    arr = isinstance(cs, list)
    cl = cs if arr else [cs]
    case = {'part': part, 'fmt': list(f), 'shifting': mode, 'overflow': ovf, 'dir': d, 'n': n, 'codes': cs, 'by': by, 'inplace': inplace}
    acc.dim('built_by', by, len(cl))
    acc.dim('form', 'inplace' if inplace else 'binary', len(cl))
    acc.evaluations += len(cl)
    acc.transitions += 1
    acc.dim('mode', mode, len(cl))
    acc.dim('dir', d, len(cl))
    lossy = [c for c in cl if c < 0 or (d == '>>' and c % (1 << n) != 0) or (d == '<<' and not (f.lo <= c << n <= f.hi))]
    acc.nontrivial += len(lossy)
    try:
        x = build(f, cl, (len(cl),) if arr else (), by, shifting=mode, overflow=ovf)
        before = obs(x)
        if inplace:
            z = x.deepcopy()            # x <<= n / x >>= n on a copy: the name is re-bound to the result
            if d == '<<':
                z <<= n
            else:
                z >>= n
        else:
            z = (x << n) if d == '<<' else (x >> n)
        got = codes(z)
        gf = fmt_of(z)
        fl = flags(z)
        after = obs(x)
    except Exception as e:
        acc.violation('exception', case, '%s codes %s %s %d (%s) raised %r' % (f.dtype, str(cl)[:40], d, n, mode, e), {'part': part, 'mode': mode, 'dir': d})
        return
    if after != before:
        acc.violation('operand_changed', case, '%s %s %d modified its operand: %s -> %s' % (f.dtype, d, n, before, after), {'part': part, 'mode': mode, 'dir': d})
        return
    if not isinstance(z, Fxp) or z is x:
        acc.violation('identity', case, 'shift returned %r' % type(z), {'part': part, 'mode': mode, 'dir': d})
        return
    # identity for n == 0: same codes; same format in trunc/keep mode.  In expand mode the statement only promises that no bit is
    # lost ("the word grows as needed"), so a wider word for the same value (x<<0 on the most negative code grows by one bit) is accepted.
    if n == 0 and (got != cl or gf.n_frac != f.n_frac or gf.signed != f.signed or
                   (gf.n_word != f.n_word if mode != 'expand' else gf.n_word < f.n_word)):
        acc.violation('zero_shift', case, '%s codes %s %s 0 (%s) gave %s codes %s' % (f.dtype, str(cl)[:40], d, mode, gf.dtype, str(got)[:40]),
                      {'part': part, 'mode': mode, 'dir': d})
        return
    if mode == 'expand':
        if gf.signed != f.signed:
            acc.violation('format', case, 'signedness changed: %s -> %s' % (f.dtype, gf.dtype), {'part': part, 'mode': mode, 'dir': d})
            return
        for i, c in enumerate(cl):
            want = f.value(c) * (Fraction(2) ** n if d == '<<' else Fraction(1, 2 ** n))
            have = gf.value(got[i]) if i < len(got) else None
            if have != want:
                acc.violation('value', dict(case, codes=c) if arr and False else case,
                              '%s code %d %s %d in expand mode: result %s code %s = %s, expected exactly %s (array %s)'
                              % (f.dtype, c, d, n, gf.dtype, got[i] if i < len(got) else None, have, want, str(cl)[:60]),
                              {'part': part, 'mode': mode, 'dir': d})
                return
        if fl[0] or fl[1] or fl[2]:
            acc.violation('flags', case, '%s %s %d in expand mode raised flags %s' % (f.dtype, d, n, fl), {'part': part, 'mode': mode, 'dir': d})
        acc.outcome('expand_exact', len(cl))
    else:
        if gf != f:
            acc.violation('format', case, '%s %s %d in %s mode changed the format to %s' % (f.dtype, d, n, mode, gf.dtype), {'part': part, 'mode': mode, 'dir': d})
            return
        for i, c in enumerate(cl):
            if d == '>>':
                ok = got[i] == (c >> n)
                want = str(c >> n)
                acc.outcome('arith_right')
            else:
                r = c << n
                if f.lo <= r <= f.hi:
                    ok = got[i] == r
                    want = str(r)
                    acc.outcome('left_representable')
                else:
                    allowed = {overflow_code(r, f, 'saturate'), overflow_code(r, f, 'wrap')}
                    ok = got[i] in allowed
                    want = 'one of %s' % sorted(allowed)
                    acc.outcome('left_overflowing')
            if not ok:
                acc.violation('value', case, '%s code %d %s %d in %s mode: result code %d, expected %s' % (f.dtype, c, d, n, mode, got[i], want),
                              {'part': part, 'mode': mode, 'dir': d})
                return
    for c in got[:4]:
        acc.states.add((gf, c))
    acc.sample(dict(case, codes=cl[:4] if arr else cs), 1)


def judge_history(acc, f, mode, d, n, part):
    """x >> n (or <<), then x[i] = v in place, then the same shift again: the second result must reflect the new element"""
    cs = [c for c in (4, 8, 12, f.hi, f.lo) if f.lo <= c <= f.hi][:3]
    if len(cs) < 2:
        return
    for newc in sorted({1, 3, f.hi, f.lo if f.signed else 1}):
        if not (f.lo <= newc <= f.hi):
            continue
        case = {'part': part, 'history': True, 'fmt': list(f), 'shifting': mode, 'dir': d, 'n': n, 'codes': cs, 'new': newc}
        acc.evaluations += len(cs)
        acc.transitions += 4
        acc.nontrivial += 1
        try:
            x = build(f, cs, (len(cs),), 'raw', shifting=mode)
            z1 = (x << n) if d == '<<' else (x >> n)
            x[0] = f.fvalue(newc)
            z = (x << n) if d == '<<' else (x >> n)
            got, gf = codes(z), fmt_of(z)
        except Exception as e:
            acc.violation('exception', case, '%s shift history raised %r' % (f.dtype, e), {'part': part, 'aspect': 'history'})
            continue
        now = [newc] + cs[1:]
        bad = None
        for i, c in enumerate(now):
            if mode == 'expand':
                if gf.value(got[i]) != f.value(c) * (Fraction(2) ** n if d == '<<' else Fraction(1, 2 ** n)):
                    bad = i
            elif d == '>>':
                if got[i] != c >> n:
                    bad = i
            else:
                r = c << n
                if got[i] not in ({r} if f.lo <= r <= f.hi else {overflow_code(r, f, 'saturate'), overflow_code(r, f, 'wrap')}):
                    bad = i
        if bad is not None:
            acc.violation('history', case, '%s codes %s: %s%d, then x[0] = code %d, then %s%d again (%s mode): element %d is code %d in %s'
                          % (f.dtype, cs, d, n, newc, d, n, mode, bad, got[bad], gf.dtype), {'part': part, 'aspect': 'history'})
        else:
            acc.outcome('history_ok')


def bounds(tier, seed):
    return {'small_scope': 'every code (scalar) of formats n_word<=%d, signed/unsigned, n_frac in {0, n_word//2} x shifting {expand,trunc,keep} x overflow '
                           '{saturate,wrap} x {<<,>>} x n in 0..n_word+3; whole-format arrays; shift / indexed write / shift again on one object; all ordered code pairs as 2-element arrays for n_word<=%d'
                           % ((5, 3) if tier == 'quick' else (6, 4)),
            'boundary': 'n_word in %s: boundary/walking-bit/seed codes, n in {0,1,2,n_word-1,n_word,n_word+3} with n_word+n<=62'
                        % ([8, 12, 16, 24, 31, 32] if tier == 'quick' else list(range(7, 33))),
            'seed': seed}


def shards(tier, seed):
    out = []
    k, ka = (5, 3) if tier == 'quick' else (6, 4)
    for nw in range(1, k + 1):
        for s in (True, False):
            out.append({'part': 'S', 'nw': nw, 'signed': s, 'pairs': nw <= ka})
    for nw in ([8, 12, 16, 24, 31, 32] if tier == 'quick' else list(range(7, 33))):
        out.append({'part': 'B', 'nw': nw, 'seed': seed})
    return out


def run_shard(sh):
    reset_class_state()
    acc = Acc()
    nw = sh['nw']
    if sh['part'] == 'S':
        for nf in sorted({0, nw // 2}):
            f = Fmt(sh['signed'], nw, nf)
            cs = list(range(f.lo, f.hi + 1))
            for mode in MODES:
                for ovf in ('saturate', 'wrap'):
                    for d in ('<<', '>>'):
                        for n in range(0, nw + 4):
                            judge(acc, f, mode, ovf, d, n, cs, 'S')
                            judge(acc, f, mode, ovf, d, n, cs, 'S', 'value')
                            judge(acc, f, mode, ovf, d, n, cs, 'S', 'raw', True)
                            if ovf == 'saturate' and n in (0, 1, nw):
                                for env in (C14_ENVS if nw <= 2 else (C14_ENVS[(n + nf + MODES.index(mode) + (d == '<<')) % len(C14_ENVS)],)):
                                    judge(acc, f, mode, ovf, d, n, cs, 'S', 'env:' + env)
                                    judge(acc, f, mode, ovf, d, n, cs[-1], 'S', 'env:' + env)
                                for how in (AGED if nw <= 2 else (AGED[(n + nf + MODES.index(mode)) % len(AGED)],)):
                                    judge(acc, f, mode, ovf, d, n, cs, 'S', how)       # operand reached through a history
                                    judge(acc, f, mode, ovf, d, n, cs[0], 'S', how)
                            if ovf == 'saturate' and nw >= 3:
                                judge_history(acc, f, mode, d, n, 'S')
                            for c in cs:
                                judge(acc, f, mode, ovf, d, n, c, 'S')
                            if sh['pairs'] and ovf == 'saturate':
                                for a in cs:
                                    for b in cs:
                                        judge(acc, f, mode, ovf, d, n, [a, b], 'Sp')
    else:
        for s in (True, False):
            for nf in sorted({0, nw // 2}):
                f = Fmt(s, nw, nf)
                cs = al.code_alphabet(f, sh['seed'])
                for mode in MODES:
                    for d in ('<<', '>>'):
                        for n in sorted({0, 1, 2, nw - 1, nw, nw + 3}):
                            if nw + n > 62:
                                acc.skipped += 1
                                continue
                            judge(acc, f, mode, 'saturate', d, n, cs, 'B')
                            for c in (f.lo, f.hi, -1 if s else 1, cs[len(cs) // 2]):
                                judge(acc, f, mode, 'wrap', d, n, c, 'B')
                            judge(acc, f, mode, 'saturate', d, n, [f.lo, 1 << (nw // 2)], 'B')
                # single elements (an array's largest element decides the growth for all the others): every power of two, its
                # neighbours and the extremes x every shift count the domain allows
                singles = sorted({c for k in range(nw) for c in ((1 << k) - 1, 1 << k, (1 << k) + 1, -(1 << k), -(1 << k) - 1)
                                  if f.lo <= c <= f.hi} | {f.lo, f.hi})
                for mode in MODES:
                    for d in ('<<', '>>'):
                        for n in range(0, 62 - nw + 1):
                            if mode != 'expand' and n not in (0, 1, nw - 1, nw, 62 - nw):
                                continue
                            for c in singles:
                                judge(acc, f, mode, 'saturate', d, n, c, 'B1')
                            judge(acc, f, mode, 'saturate', d, n, [0, 1 << (nw - 2 if s and nw > 1 else nw - 1)], 'B1')
    return acc


def replay(case):
    reset_class_state()
    acc = Acc()
    if case.get('history'):
        judge_history(acc, Fmt(*case['fmt']), case['shifting'], case['dir'], case['n'], case['part'])
        return [v for v in acc.violations if v['case'].get('new') == case['new']]
    judge(acc, Fmt(*case['fmt']), case['shifting'], case['overflow'], case['dir'], case['n'], case['codes'], case['part'], case.get('by', 'raw'), case.get('inplace', False))
    return acc.violations


def finish(merged, tier, seed):
    for k in ('expand_exact', 'arith_right', 'left_representable', 'left_overflowing'):
        if merged['outcomes'].get(k, 0) < 100:
            raise HarnessError('outcome %s under-exercised' % k)
    return {}
