"""C20 - objects are independent and inputs are never mutated.
E2: derivation chains x -> d1 -> d2 (-> d3) by every public route, then every mutation applied to every object of the heap in turn
(on a fresh rebuild each time) and all other objects re-observed.  E1: input containers, Config validation."""
import copy
import numpy as np
from ..runner import Acc, HarnessError
from ..refmodel import Fmt
from ..common import Fxp, Config, fx, codes, fmt_of, flags, Recorder, reset_class_state
from ..explore import Disabled

ID = 'C20'
RULE = ('E2 cases = (root, derivation chain, object mutated, mutation): the chain is rebuilt on fresh objects, the mutation applied, every '
        'other object re-observed (format, codes, shape, status record, 12 config fields, callback count); the only permitted sharing is '
        'the value buffer between an object and its index views (and x[i][j]=v must write through). E1 cases = (container kind, content, '
        'route) with a deep snapshot before/after and memory-sharing tests, and (config attribute, value, route) for validation. '
        'non-trivial = the mutation changed the mutated object; distinct by (chain, object, mutation)')
ASSUMPTIONS = ['copy() (explicit shallow copy) is not judged', 'observation covers every field a public operation reads',
               'bin_prefix / hex_prefix only warn by design and are not "validated" attributes']

CFG_FIELDS = ('rounding', 'overflow', 'shifting', 'op_method', 'op_input_size', 'op_sizing', 'const_op_sizing', 'array_output_type',
              'array_op_method', 'dtype_notation', 'max_error', 'n_word_max')


def observe(o):
    c = o.config
    v = o.val
    return {'fmt': tuple(fmt_of(o)), 'codes': tuple(codes(o)), 'shape': tuple(np.shape(v)),
            'status': tuple(sorted((k, bool(b)) for k, b in o.status.items())),
            'config': tuple(getattr(c, f) for f in CFG_FIELDS) + (c.op_out is None, c.op_out_like is None),
            'callbacks': len(o.callbacks), 'dtype': o.dtype}


class Impure(Exception):
    """a derivation (an operation that returns a NEW object) changed one of the objects that existed before it"""


def full_observe(o):
    d = observe(o)
    d['storage'] = str(getattr(o.val, 'dtype', type(o.val)))
    d['vdtype'] = repr(o.vdtype)
    d['scale_bias'] = (repr(o.scale), repr(o.bias))
    return d


# ------------------------------------------------------------------------------------------ roots
def make_root(kind, cfgk):
    rec = Recorder()
    kw = dict(rounding='floor', overflow='saturate', callbacks=[rec])
    if cfgk == 'B':
        kw.update(shifting='trunc', op_sizing='same', overflow='wrap', rounding='around')
    if kind == 'wide':                      # 64-bit words (Python-integer storage), negative codes
        return Fxp(np.array([-(1 << 63), -3, (1 << 62) + 1], dtype=object), True, 64, 0, raw=True, **kw)
    if kind == 'scaled':                    # integer scale and bias on a signed format without fraction bits (integer value type)
        return Fxp([5, -3, 7], True, 8, 0, scale=2, bias=1, **kw)
    if kind == 'unsigned':
        return Fxp([1.25, 3.0, 0.3], False, 8, 2, **kw)
    val = {'scalar': 1.3, 'vec': [1.3, -2.0, 0.75], 'mat': [[1.3, -2.0], [0.75, 3.5]]}[kind]
    x = Fxp(val, True, 8, 2, **kw)          # 1.3 is inexact -> inaccuracy flag raised
    return x


ROOTS = [(k, c) for k in ('scalar', 'vec', 'mat') for c in ('A', 'B')] + [('wide', 'A'), ('scaled', 'A'), ('unsigned', 'B')]


# ------------------------------------------------------------------------------------------ derivations
def _other(heap):
    return heap[0]


def _arr(o):
    if np.ndim(o.val) == 0:
        raise Disabled()
    return o


def _mat(o):
    if np.ndim(o.val) != 2:
        raise Disabled()
    return o


def _elem(o):
    return o if np.ndim(o.val) == 0 else o[(0,) * np.ndim(o.val)]


def _nz(o):
    """the operand itself if it holds no zero (divisors)"""
    if any(c == 0 for c in codes(o)):
        raise Disabled()
    return o


def _tmpl_class(o):
    Fxp.template = o
    try:
        return Fxp(1.0)
    finally:
        Fxp.template = None


def _shapeval(o, v=1.0):
    return np.full(np.shape(o.val), v) if np.ndim(o.val) else v


DERIVS = [
    ('like=', lambda h, o: Fxp(_shapeval(o), like=o), False),
    ('like=None', lambda h, o: Fxp(None, like=o), False),
    ('Fxp(o)', lambda h, o: Fxp(o), False),
    ('Fxp(o,sizes)', lambda h, o: Fxp(o, True, 12, 4), False),
    ('Fxp(o,like=)', lambda h, o: Fxp(o, like=_other(h)), False),
    ('deepcopy()', lambda h, o: o.deepcopy(), False),
    ('copy.deepcopy', lambda h, o: copy.deepcopy(o), False),
    ('like()', lambda h, o: Fxp(_shapeval(o, 1.5)).like(o), False),
    ('o.like(root)', lambda h, o: o.like(_other(h)), False),
    ('fxp_like', lambda h, o: fx.fxp_like(o, _shapeval(o, 1.5)), False),
    ('template=', lambda h, o: Fxp(1.0, template=o), False),
    ('Fxp.template', lambda h, o: _tmpl_class(o), False),
    ('config=', lambda h, o: Fxp(1.0, True, 8, 2, config=o.config), False),
    ('equal', lambda h, o: Fxp(_shapeval(o, 0.0), True, 10, 3).equal(o), False),
    ('resize_copy', lambda h, o: (lambda y: (y.resize(True, 12, 3), y)[1])(o.deepcopy()), False),
    ('neg', lambda h, o: -o, False),
    ('pos', lambda h, o: +o, False),
    ('abs', lambda h, o: abs(o), False),
    ('o+root', lambda h, o: o + _other(h), False),
    ('root-o', lambda h, o: _other(h) - o, False),
    ('o*o', lambda h, o: o * o, False),
    ('o/root', lambda h, o: o / _other(h), False),
    ('add_same', lambda h, o: fx.add(o, _other(h), sizing='same'), False),
    ('mul_largest', lambda h, o: fx.mul(o, _other(h), sizing='largest'), False),
    ('add_out_like', lambda h, o: fx.add(o, _other(h), out_like=_other(h)), False),
    ('o+1', lambda h, o: o + 1, False),
    ('2*o', lambda h, o: 2 * o, False),
    ('o-0.5', lambda h, o: o - 0.5, False),
    ('invert', lambda h, o: ~o, False),
    ('and_mask', lambda h, o: o & 3, False),
    ('or_root', lambda h, o: (o | _other(h)) if o.n_word == _other(h).n_word and np.shape(o.val) == np.shape(_other(h).val) else _dis(), False),
    ('xor_mask', lambda h, o: o ^ 5, False),
    ('lshift1', lambda h, o: o << 1, False),
    ('rshift1', lambda h, o: o >> 1, False),
    ('lshift0', lambda h, o: o << 0, False),
    ('rshift0', lambda h, o: o >> 0, False),
    ('np.add', lambda h, o: np.add(o, _other(h)), False),
    ('np.multiply', lambda h, o: np.multiply(o, 2), False),
    ('np.sum', lambda h, o: np.sum(_arr(o)), False),
    ('np.cumsum', lambda h, o: np.cumsum(_arr(o)), False),
    ('np.sort', lambda h, o: np.sort(_arr(o)), False),
    ('np.clip', lambda h, o: np.clip(o, -1.0, 1.0), False),
    ('np.transpose', lambda h, o: np.transpose(_arr(o)), False),
    ('np.diagonal', lambda h, o: np.diagonal(_mat(o)), False),
    ('np.sin', lambda h, o: np.sin(o), False),
    ('np.max', lambda h, o: np.max(_arr(o)), False),
    ('m.sum', lambda h, o: _arr(o).sum(), False),
    ('m.cumsum', lambda h, o: _arr(o).cumsum(), False),
    ('m.max', lambda h, o: _arr(o).max(), False),
    ('m.clip', lambda h, o: o.clip(-1.0, 1.0), False),
    ('m.transpose', lambda h, o: _arr(o).transpose(), False),
    ('m.T', lambda h, o: _arr(o).T, False),
    ('m.flatten', lambda h, o: _arr(o).flatten(), False),
    ('m.dot', lambda h, o: _arr(o).dot(_arr(o).T if np.ndim(o.val) == 2 else o), False),
    # constructor keywords next to an inherited configuration: they belong to the NEW object only
    ('config=+kw', lambda h, o: Fxp(1.0, True, 8, 2, config=o.config, overflow='wrap' if o.config.overflow == 'saturate' else 'saturate',
                                     rounding='ceil', shifting='keep', op_sizing='largest'), False),
    ('like=+kw', lambda h, o: Fxp(_shapeval(o), like=o, overflow='wrap' if o.config.overflow == 'saturate' else 'saturate', rounding='ceil'), False),
    ('template=+kw', lambda h, o: Fxp(1.0, template=o, rounding='fix', overflow='wrap' if o.config.overflow == 'saturate' else 'saturate'), False),
    # every public read / render, then a deep copy: reading an object never changes it (nor anything else)
    ('reads', lambda h, o: (o.bin(), o.hex(), o.base_repr(10), o.raw(), o.uraw(), o.get_val(), o.astype(float), o.astype(int), str(o), repr(o), o.dtype,
                            o.get_dtype('Q'), np.asarray(o), o.upper, o.get_status(), o.deepcopy())[-1], False),
    ('int_reads', lambda h, o: (int(_elem(o)), float(_elem(o)), bool(_elem(o)), _elem(o).astype(int), o.astype(int, index=None), o.deepcopy())[-1], False),
    ('mod', lambda h, o: o % _nz(_other(h)), False),
    ('floordiv', lambda h, o: fx.floordiv(o, _nz(_other(h)), method='raw'), False),
    ('mod_raw_repr', lambda h, o: (fx.mod(o, _nz(_other(h)), method='raw'), fx.mod(o, _nz(_other(h)), method='repr'))[1], False),
    ('mul_out_finer', lambda h, o: fx.mul(o, _other(h), out=Fxp(_shapeval(o, 0.0), True, 60, 30)), False),
    ('sub_out', lambda h, o: fx.sub(_other(h), o, out=Fxp(_shapeval(o, 0.0), True, 40, 10)), False),
    ('clip_int', lambda h, o: np.clip(o, -1, 1), False),
    ('m.clip_int', lambda h, o: o.clip(-2, 2), False),
    ('cmp', lambda h, o: Fxp(np.asarray(o < _other(h)).astype(int) if np.shape(o.val) == np.shape(_other(h).val) else _dis()), False),
    # index views: the last field marks "view of the parent"
    ('o[0]', lambda h, o: _arr(o)[0], True),
    ('o[0:2]', lambda h, o: _arr(o)[0:2], True),
    ('o[1][0]', lambda h, o: _mat(o)[1][0], True),
    ('o[:,1]', lambda h, o: _mat(o)[:, 1], True),
]
DNAMES = [d[0] for d in DERIVS]
LAST_LEVEL = ['like=', 'Fxp(o)', 'Fxp(o,like=)', 'deepcopy()', 'like()', 'template=', 'config=+kw', 'equal', 'resize_copy', 'neg', 'o+root', 'o*o', 'o/root',
              'add_out_like', 'o+1', 'invert', 'or_root', 'lshift1', 'rshift0', 'np.add', 'np.sum', 'np.clip', 'm.T', 'm.flatten', 'reads', 'mod',
              'mul_out_finer', 'o[0]', 'o[0:2]']


def _dis():
    raise Disabled()


# ------------------------------------------------------------------------------------------ mutations
def _first_index(o):
    return (0,) * np.ndim(o.val)


def m_setitem(o):
    if np.ndim(o.val) == 0:
        o[()] = 0.25
    else:
        o[_first_index(o)] = 0.25


def m_setitem_huge(o):
    # values that take the library's Python-integer path (scaled code needs 64+ bits / magnitude >= 2**64)
    idx = () if np.ndim(o.val) == 0 else _first_index(o)
    o[idx] = 2 ** 62


def m_setitem_huge_float(o):
    idx = () if np.ndim(o.val) == 0 else _first_index(o)
    o[idx] = -1e30


MUTS = [
    ('write', lambda o: o.set_val(_shapeval(o, 0.5))),
    ('setitem_huge', m_setitem_huge),
    ('setitem_huge_float', m_setitem_huge_float),
    ('call', lambda o: o(_shapeval(o, -0.5))),
    ('setitem', m_setitem),
    ('raw', lambda o: o.set_val(_shapeval(o, 3).astype(int) if np.ndim(o.val) else 3, raw=True)),
    ('cfg_rounding', lambda o: setattr(o.config, 'rounding', 'ceil')),
    ('mirror_overflow', lambda o: setattr(o, 'overflow', 'wrap' if o.config.overflow == 'saturate' else 'saturate')),
    ('cfg_op_sizing', lambda o: setattr(o.config, 'op_sizing', 'smallest')),
    ('cfg_shifting', lambda o: setattr(o.config, 'shifting', 'keep')),
    ('flag', lambda o: o.set_val(_shapeval(o, 1e6))),
    ('status_poke', lambda o: o.status.__setitem__('underflow', True)),
    ('reset', lambda o: o.reset()),
    ('resize', lambda o: o.resize(n_word=o.n_word + 3, n_frac=o.n_frac + 1)),
    ('cb_append', lambda o: o.callbacks.append(Recorder())),
]
VALUE_MUTS = ('write', 'call', 'setitem', 'setitem_huge', 'setitem_huge_float', 'raw', 'flag', 'resize')


def build_chain(root, chain):
    """-> heap (list of objects), views: dict child index -> parent index"""
    reset_class_state()
    heap = [make_root(*root)]
    views = {}
    for name in chain:
        d = DERIVS[DNAMES.index(name)]
        o = heap[-1]
        before = [full_observe(x) for x in heap]
        new = d[1](heap, o)
        if not isinstance(new, Fxp):
            raise Disabled()
        after = [full_observe(x) for x in heap]
        if after != before:
            k = [i for i in range(len(heap)) if after[i] != before[i]][0]
            raise Impure('derivation %r changed object %d (its operand or an earlier object): %s' % (
                name, k, {f: (before[k][f], after[k][f]) for f in before[k] if before[k][f] != after[k][f]}), name)
        if d[2]:
            views[len(heap)] = len(heap) - 1
        heap.append(new)
    return heap, views


def related_by_view(i, j, views):
    """same view family: one is reachable from the other through index views, or both from a common base"""
    def base(k):
        while k in views:
            k = views[k]
        return k

    def chain_up(k):
        out = {k}
        while k in views:
            k = views[k]
            out.add(k)
        return out
    return i in chain_up(j) or j in chain_up(i)


def canon(heap, views):
    """alias partition + observations"""
    n = len(heap)
    part = []
    for i in range(n):
        for j in range(i + 1, n):
            a, b = heap[i], heap[j]
            part.append((a.config is b.config, a.status is b.status, a.callbacks is b.callbacks,
                         bool(np.shares_memory(a.val, b.val)) if isinstance(a.val, np.ndarray) and isinstance(b.val, np.ndarray) else False))
    return (tuple(part), tuple(tuple(sorted(observe(o).items())) for o in heap), tuple(sorted(views.items())))


def check_chain(acc, root, chain):
    """all (object, mutation) pairs on fresh rebuilds; returns canonical state of the un-mutated heap or None if disabled"""
    case0 = {'part': 'A', 'root': list(root), 'chain': list(chain)}
    try:
        heap, views = build_chain(root, chain)
    except Disabled:
        acc.outcome('disabled')
        return None
    except Impure as e:
        acc.violation('operand_mutated', case0, 'root %s chain %s: %s' % (root, chain, e.args[0]), {'part': 'A', 'deriv': e.args[1], 'aspect': 'purity'})
        return None
    except Exception as e:
        # C20 is about sharing, not about which operand combinations an operation accepts: a raising derivation is no state
        acc.outcome('derivation_raised')
        acc.skipped += 1
        return None
    acc.transitions += len(chain) + 1
    key = canon(heap, views)
    acc.states.add(key)
    # static aliasing facts: no two objects may share config / status / callbacks; values only inside a view family
    n = len(heap)
    new = n - 1
    for j in range(n):
        if j == new and n > 1:
            continue
        i = j
        a, b = heap[i], heap[new]
        if a is b:
            if n > 1:
                acc.violation('same_object', case0, 'chain %s: derivation %r returned its operand itself' % (chain, chain[-1]),
                              {'part': 'A', 'deriv': chain[-1]})
            continue
        shared = [nm for nm, s in (('config', a.config is b.config), ('status', a.status is b.status), ('callbacks', a.callbacks is b.callbacks)) if s]
        mem = isinstance(a.val, np.ndarray) and isinstance(b.val, np.ndarray) and bool(np.shares_memory(a.val, b.val))
        if mem and not related_by_view(i, new, views):
            shared.append('value buffer')
        if shared:
            acc.violation('alias', case0, 'root %s chain %s: object %d and object %d share %s' % (root, chain, i, new, shared),
                          {'part': 'A', 'deriv': chain[-1], 'shared': shared[0]})
    # dynamic: mutate one, observe the others (pairs that involve the newest object)
    for mname, mut in MUTS:
        for target in range(n):
            observers = [k for k in range(n) if k != target] if target == new else [new]
            if not observers:
                continue
            case = dict(case0, target=target, mutation=mname)
            try:
                heap, views = build_chain(root, chain)
                before = [observe(o) for o in heap]
                mut(heap[target])
                after = [observe(o) for o in heap]
            except Disabled:
                continue
            except Exception as e:
                acc.outcome('mutation_raised')
                acc.skipped += 1
                continue
            acc.evaluations += 1
            acc.transitions += len(chain) + 2
            if after[target] != before[target]:
                acc.nontrivial += 1
            for k in observers:
                if after[k] == before[k]:
                    acc.outcome('independent')
                    continue
                diff = [f for f in before[k] if before[k][f] != after[k][f]]
                if related_by_view(target, k, views) and set(diff) <= {'codes'} and mname in VALUE_MUTS:
                    acc.outcome('view_write_through')
                    continue
                acc.violation('leak', case, 'root %s chain %s: mutation %r of object %d changed object %d in %s (%s -> %s)'
                              % (root, chain, mname, target, k, diff, [before[k][f] for f in diff][:2], [after[k][f] for f in diff][:2]),
                              {'part': 'A', 'deriv': chain[-1] if chain else None, 'field': diff[0]})
            # write-through is REQUIRED for an indexed write through a 2-d/1-d view
            if mname in ('setitem', 'setitem_huge', 'setitem_huge_float') and target in views and target == new and isinstance(heap[target].val, np.ndarray) and np.ndim(heap[target].val) >= 1:
                par = views[target]
                if after[par]['codes'] == before[par]['codes'] and after[target]['codes'] != before[target]['codes']:
                    acc.violation('write_through', case, 'root %s chain %s: x[i][j]=v through the view did not reach its parent' % (root, chain),
                                  {'part': 'A', 'deriv': chain[-1]})
                else:
                    acc.outcome('write_through_ok')
    acc.sample(case0, 1)
    return key


# ------------------------------------------------------------------------------------------ E1: containers
def containers():
    out = []
    nums = [1.25, -2, 3.5]
    out += [('list', lambda: list(nums)), ('nested_list', lambda: [[1.25, -2], [3.5, 0]]), ('tuple', lambda: tuple(nums)),
            ('nested_tuple', lambda: ((1.25, -2), (3.5, 0))), ('list_of_tuples', lambda: [(1.25, -2), (3.5, 0)]),
            ('tuple_of_lists', lambda: ([1.25, -2], [3.5, 0]))]
    for t in ('float16', 'float32', 'float64', 'int8', 'int16', 'int32', 'int64', 'uint8', 'uint16', 'uint32', 'uint64'):
        out.append(('ndarray.' + t, (lambda t=t: np.array([1, 2, 3], dtype=t))))
        out.append(('ndarray2d.' + t, (lambda t=t: np.array([[1, 2], [3, 4]], dtype=t))))
    out += [('bin_list', lambda: ['0b0101', '0b0011']), ('hex_list', lambda: ['0x1F', '0x03']), ('dec_list', lambda: ['1.25', '-2.0']),
            ('bin_nested', lambda: [['0b0101', '0b0011'], ['0b1110', '0b0001']]), ('bin_tuple', lambda: ('0b0101', '0b0011')),
            ('mixed_list', lambda: ['0b0101', 3, 2.5]), ('bin_list_of_tuples', lambda: [('0b0101', '0b0011'), ('0b0001', '0b0010')]),
            ('bin_ndarray', lambda: np.array(['0b0101', '0b0011'])),
            # numbers and strings mixed in every position (a shortcut that looks only at the first element must not skip the copy)
            ('mixed_num_first', lambda: [3, '0b0101', '0x0F']), ('mixed_str_last', lambda: [1.5, 2, '0b0011']),
            ('mixed_str_middle', lambda: [1, '0x03', 2]), ('mixed_nested', lambda: [[1, '0b01'], ['0x2', 3]]),
            ('mixed_tuple_num_first', lambda: (3, '0b0101', '0x0F')), ('mixed_nested_num_rows_first', lambda: [[1, 2], ['0b01', '0x2']]),
            ('hex_list_long', lambda: ['0x1', '0x2', '0x3', '0x4', '0x5', '0x6', '0x7', '0x8']), ('bin_single', lambda: ['0b0101'])]
    return out


def snapshot(c):
    if isinstance(c, np.ndarray):
        return ('nd', c.dtype.str, c.shape, c.tobytes() if c.dtype.kind != 'U' else tuple(c.tolist()))
    if isinstance(c, (list, tuple)):
        return (type(c).__name__, tuple(snapshot(e) for e in c))
    return (type(c).__name__, repr(c))


CROUTES = ('ctor', 'ctor_raw', 'call', 'set_val', 'set_val_raw', 'setitem', 'equal', 'from_bin', 'from_bin_fn', 'fxp_like')


def container_case(acc, cname, make, route, wf=(16, 4)):
    """wf: (n_word, n_frac) of the object the container is stored into (no fraction bits: the scaling factor is 1)"""
    case = {'part': 'B', 'container': cname, 'route': route, 'wf': list(wf)}
    NW, NF = wf
    c = make()
    before = snapshot(c)
    is_str = cname.startswith(('bin', 'hex', 'dec', 'mixed'))
    is_int_nd = isinstance(c, np.ndarray) and c.dtype.kind in 'iu'
    if route in ('from_bin', 'from_bin_fn') and not cname.startswith('bin'):
        return
    if route in ('ctor_raw', 'set_val_raw') and not (is_int_nd or cname.startswith(('bin', 'hex'))):
        return
    shape = np.shape(np.array(c)) if not is_str else np.shape(np.array(c, dtype=object) if cname.startswith('mixed') else np.array(c))
    acc.evaluations += 1
    acc.transitions += 1
    acc.dim('container', cname)
    acc.dim('route', route)
    try:
        if route == 'ctor':
            x = Fxp(c, True, NW, NF)
        elif route == 'ctor_raw':
            x = Fxp(c, True if not (isinstance(c, np.ndarray) and c.dtype.kind == 'u') else False, NW, NF, raw=True)
        elif route == 'from_bin_fn':
            x = fx.from_bin(c, signed=True, n_word=16, n_frac=4)
        elif route == 'fxp_like':
            x = fx.fxp_like(Fxp(None, True, NW, NF), c)
        else:
            x = Fxp(np.zeros(shape), True if not (isinstance(c, np.ndarray) and c.dtype.kind == 'u') else False, NW, NF)
            if route == 'call':
                x(c)
            elif route == 'set_val':
                x.set_val(c)
            elif route == 'set_val_raw':
                x.set_val(c, raw=True)
            elif route == 'setitem':
                x[...] = c
            elif route == 'equal':
                x.equal(c)
            elif route == 'from_bin':
                x.from_bin(c)
    except Exception as e:
        # whether a container kind is accepted by a route is C01/C11 matter; here only: the caller's container is untouched
        acc.outcome('container_rejected')
        acc.dim('container_rejected', '%s/%s' % (cname, route))
        if snapshot(c) != before:
            acc.violation('input_mutated', case, 'container %s route %s raised %r AND changed the caller container to %s'
                          % (cname, route, e, snapshot(c)), {'part': 'B', 'container': cname, 'route': route})
        return
    if snapshot(c) != before:
        acc.violation('input_mutated', case, 'container %s route %s: caller container changed from %s to %s'
                      % (cname, route, before, snapshot(c)), {'part': 'B', 'container': cname, 'route': route})
        return
    acc.nontrivial += 1
    if isinstance(c, np.ndarray) and c.dtype.kind != 'U':
        if isinstance(x.val, np.ndarray) and np.shares_memory(x.val, c):
            acc.violation('shares_input', case, 'container %s route %s: object value buffer shares memory with the input array' % (cname, route),
                          {'part': 'B', 'container': cname, 'route': route})
            return
        # mutate the object -> input unchanged; mutate the input -> object unchanged
        xb = tuple(codes(x))
        c[...] = 0
        if tuple(codes(x)) != xb:
            acc.violation('shares_input', case, 'container %s route %s: writing the input array changed the object' % (cname, route),
                          {'part': 'B', 'container': cname, 'route': route})
            return
        # two objects built from ONE array: an indexed write into the first must reach neither the second nor the array
        c3 = make()
        s3 = snapshot(c3)
        try:
            xa, xb2 = Fxp(c3, True, NW, NF), Fxp(c3, True, NW, NF)
            cb = tuple(codes(xb2))
            xa[(0,) * xa.val.ndim] = 1
            xa[(-1,) * xa.val.ndim] = 0
            if tuple(codes(xb2)) != cb or snapshot(c3) != s3:
                acc.violation('shares_input', case, 'container %s: an indexed write into one of two objects built from the same array changed the %s'
                              % (cname, 'other object' if tuple(codes(xb2)) != cb else 'array'), {'part': 'B', 'container': cname, 'route': route})
                return
        except Exception:
            pass
        c2 = make()
        y = Fxp(c2, True, NW, NF) if route != 'ctor_raw' else x
        y.set_val(np.zeros(np.shape(c2)))
        if snapshot(c2) != before and route != 'ctor_raw':
            acc.violation('shares_input', case, 'container %s: writing the object changed the input array' % cname,
                          {'part': 'B', 'container': cname, 'route': route})
    acc.outcome('container_ok')
    acc.sample(case, 1)


# ------------------------------------------------------------------------------------------ E1: config validation
STR_ATTRS = {'overflow': ['saturate', 'wrap'], 'rounding': ['around', 'floor', 'ceil', 'fix', 'trunc'], 'shifting': ['expand', 'trunc', 'keep'],
             'op_input_size': ['same', 'best'], 'op_sizing': ['optimal', 'same', 'fit', 'largest', 'smallest'], 'op_method': ['raw', 'repr'],
             'const_op_sizing': ['optimal', 'same', 'fit', 'largest', 'smallest'], 'array_output_type': ['fxp', 'array'],
             'array_op_method': ['raw', 'repr'], 'dtype_notation': ['fxp', 'Q']}
OBJ_ATTRS = ('op_out', 'op_out_like', 'array_op_out', 'array_op_out_like')
NUM_ATTRS = {'max_error': [1e-3, 0.5, 1 / 2 ** 63], 'n_word_max': [8, 64, 128]}
MIRRORS = ('overflow', 'rounding', 'shifting')
VROUTES = ('attr', 'Config()', 'Fxp(**kw)', 'update', 'mirror')


def invalid_values(attr):
    if attr in STR_ATTRS:
        valid = STR_ATTRS[attr]
        pool = set()
        for vs in STR_ATTRS.values():
            pool.update(vs)
        for v in valid:
            pool.update((v.upper(), v.capitalize(), v + ' ', ' ' + v, v[:-1]))
        bad = sorted(p for p in pool if p not in valid)
        return bad + ['', None, 0, 1, True, False, [], [valid[0]], (valid[0],), 1.5, b'wrap']
    if attr in OBJ_ATTRS:
        return [0, 1, 'x', 'fxp-s8/2', [], (1,), 1.5, True, Config(), object(), Fxp]
    if attr == 'max_error':
        return [0, -1, -1e-9, 0.0]
    if attr == 'n_word_max':
        return [0, -1, 1.5, '64', None, [64], 64.0]
    raise ValueError(attr)


def valid_values(attr):
    if attr in STR_ATTRS:
        return STR_ATTRS[attr]
    if attr in OBJ_ATTRS:
        return [None, Fxp(None, True, 8, 2)]
    return NUM_ATTRS[attr]


def set_by(route, attr, v):
    """apply the value by the route; returns the Config object that should hold / keep it"""
    if route == 'attr':
        c = Config()
        prev = getattr(c, attr)
        try:
            setattr(c, attr, v)
        except Exception as e:
            return c, prev, e
        return c, prev, None
    if route == 'Config()':
        try:
            c = Config(**{attr: v})
        except Exception as e:
            return None, None, e
        return c, None, None
    if route == 'Fxp(**kw)':
        try:
            x = Fxp(1.0, True, 8, 2, **{attr: v})
        except Exception as e:
            return None, None, e
        return x.config, None, None
    if route == 'update':
        c = Config()
        prev = getattr(c, attr)
        try:
            c.update(**{attr: v})
        except Exception as e:
            return c, prev, e
        return c, prev, None
    if route == 'mirror':
        x = Fxp(1.0, True, 8, 2)
        prev = getattr(x.config, attr)
        try:
            setattr(x, attr, v)
        except Exception as e:
            return x.config, prev, e
        return x.config, prev, None
    raise ValueError(route)


def validation(acc):
    for attr in list(STR_ATTRS) + list(OBJ_ATTRS) + list(NUM_ATTRS):
        for route in VROUTES:
            if route == 'mirror' and attr not in MIRRORS:
                continue
            for v in valid_values(attr):
                acc.evaluations += 1
                acc.transitions += 1
                case = {'part': 'C', 'attr': attr, 'route': route, 'value': repr(v), 'valid': True}
                c, prev, err = set_by(route, attr, v)
                got = getattr(c, attr) if c is not None else None
                if err is not None or not (got is v or got == v):
                    acc.violation('valid_rejected', case, 'config %s=%r by %s: %s' % (attr, v, route, 'raised %r' % err if err else 'stored %r' % (got,)),
                                  {'part': 'C', 'attr': attr, 'route': route})
                acc.outcome('valid_accepted')
            for i, v in enumerate(invalid_values(attr)):
                acc.evaluations += 1
                acc.transitions += 1
                acc.nontrivial += 1
                case = {'part': 'C', 'attr': attr, 'route': route, 'value': repr(v), 'valid': False, 'index': i}
                c, prev, err = set_by(route, attr, v)
                if err is None:
                    acc.violation('invalid_accepted', case, 'config %s=%r by %s was accepted (stored %r)' % (attr, v, route, getattr(c, attr)),
                                  {'part': 'C', 'attr': attr, 'route': route})
                elif c is not None and prev is not None and getattr(c, attr) != prev:
                    acc.violation('invalid_stored', case, 'config %s=%r by %s raised but the value changed to %r' % (attr, v, route, getattr(c, attr)),
                                  {'part': 'C', 'attr': attr, 'route': route})
                acc.outcome('invalid_rejected')
    acc.sample({'part': 'C', 'attr': 'overflow', 'route': 'attr', 'value': "'Saturate'", 'valid': False}, 1)


# ------------------------------------------------------------------------------------------ driver
def bounds(tier, seed):
    return {'A_chains_note': 'thorough: the third derivation of a chain is taken from a 29-route sub-menu (LAST_LEVEL)', 'A_chains': '%d roots (scalar/1-d/2-d x 2 configurations, with callback, raised flag) x chains of derivations from a menu of %d '
                        'routes to depth %d (dedup on alias partition + observations after depth 1%s) x %d mutations x every object'
                        % (len(ROOTS), len(DERIVS), 2 if tier == 'quick' else 3, '' if tier == 'quick' else '; depth 2 also without dedup',
                           len(MUTS)),
            'B_containers': '%d container kinds x %d routes' % (len(containers()), len(CROUTES)),
            'C_validation': '%d validated Config attributes x valid and invalid alphabets x 5 routes' % (len(STR_ATTRS) + len(OBJ_ATTRS) + len(NUM_ATTRS)),
            'seed': seed}


def shards(tier, seed):
    out = []
    depth = 2 if tier == 'quick' else 3
    for ri in range(len(ROOTS)):
        for d1 in range(len(DERIVS)):
            out.append({'part': 'A', 'root': ri, 'd1': d1, 'depth': depth, 'dedup': tier == 'quick'})
    out.append({'part': 'B'})
    out.append({'part': 'C'})
    return out


def run_shard(sh):
    reset_class_state()
    acc = Acc()
    if sh['part'] == 'A':
        root = ROOTS[sh['root']]
        if sh['d1'] == 0:
            check_chain(acc, root, ())
        d1 = DNAMES[sh['d1']]
        k1 = check_chain(acc, root, (d1,))
        if k1 is None:
            return acc
        seen = set()
        level = [(d1,)]
        for depth in range(2, sh['depth'] + 1):
            nxt = []
            for ch in level:
                # the last level of the deep search takes its derivation from a sub-menu (one representative of every kind of
                # route: constructor, copy, conversion, arithmetic, bitwise, shift, NumPy function, method, read, view)
                for d in (DNAMES if depth < 3 else LAST_LEVEL):
                    k = check_chain(acc, root, ch + (d,))
                    if k is None:
                        continue
                    if depth < sh['depth']:
                        if sh['dedup'] or depth >= 2:
                            # beyond depth 2 always dedup on the canonical state of the newest object and partition
                            kk = (k[0][-(len(ch) + 1):], k[1][-1])
                            if kk in seen:
                                acc.outcome('revisit')
                                continue
                            seen.add(kk)
                        nxt.append(ch + (d,))
            level = nxt
    elif sh['part'] == 'B':
        for cname, make in containers():
            for route in CROUTES:
                for wf in ((16, 4), (16, 0), (64, 0), (8, -1)):
                    container_case(acc, cname, make, route, wf)
    else:
        validation(acc)
    return acc


def replay(case):
    reset_class_state()
    acc = Acc()
    if case['part'] == 'A':
        check_chain(acc, tuple(case['root']), tuple(case['chain']))
        vs = acc.violations
        if 'mutation' in case:
            vs2 = [v for v in vs if v['case'].get('mutation') == case['mutation'] and v['case'].get('target') == case['target']]
            return vs2 or []
        return [v for v in vs if 'mutation' not in v['case']]
    if case['part'] == 'B':
        for cname, make in containers():
            if cname == case['container']:
                container_case(acc, cname, make, case['route'], tuple(case.get('wf', (16, 4))))
        return acc.violations
    full = Acc()
    validation(full)
    return [v for v in full.violations if v['case']['attr'] == case['attr'] and v['case']['route'] == case['route']
            and v['case']['value'] == case['value']]


def finish(merged, tier, seed):
    oc = merged['outcomes']
    for k in ('independent', 'view_write_through', 'write_through_ok', 'container_ok', 'valid_accepted', 'invalid_rejected'):
        if oc.get(k, 0) < 10:
            raise HarnessError('outcome %s under-exercised: %s' % (k, oc.get(k)))
    return {}
