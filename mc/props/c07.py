"""C07 - + - * with optimal sizing are exact, never overflow, and follow the documented growth rules (E1 + expression-tree closure)."""
from fractions import Fraction
import numpy as np
from ..runner import Acc, HarnessError
from ..refmodel import Fmt, add_fmt, mul_fmt, quantize_code
from ..common import Fxp, fx, codes, flags, fmt_of, reset_class_state, obs, build, AGED, ENVS

ID = 'C07'
RULE = ('cases = (format pair, operator, call route, code pair) executed with broadcasting (column x row of codes) and as scalars; the result '
        'must have the documented growth format, the exact value and no flag (negative unsigned difference: quantized into the unsigned '
        'result). Tree cases = expression trees closed under + - * from extreme leaves. non-trivial = an operand at an extreme code, or '
        'formats differing in signedness or n_frac; distinct by construction')
ASSUMPTIONS = ['growth rules as stated in the property (refmodel.add_fmt / mul_fmt)', 'operands hold exact codes (built raw)']

OPS = ('+', '-', '*')
ROUTES = ('operator', 'function', 'numpy')


def small_formats(kmax):
    return [Fmt(s, nw, nf) for s in (True, False) for nw in range(1, kmax + 1) for nf in range(-1, nw + 2)]


def apply(op, route, x, y):
    if route == 'operator':
        return x + y if op == '+' else (x - y if op == '-' else x * y)
    if route == 'function':
        return {'+': fx.add, '-': fx.sub, '*': fx.mul}[op](x, y)
    return {'+': np.add, '-': np.subtract, '*': np.multiply}[op](x, y)


def expected(op, fxm, fym, a, b):
    """result format and expected (code, over, under, inexact) of code a (format fxm) op code b (format fym)"""
    if op == '*':
        fz = mul_fmt(fxm, fym)
        return fz, (a * b, False, False, False)
    fz = add_fmt(fxm, fym)
    av = a << (fz.n_frac - fxm.n_frac)
    bv = b << (fz.n_frac - fym.n_frac)
    r = av + bv if op == '+' else av - bv
    return fz, r


def judge_pair(acc, fxm, fym, xs, ys, op, route, shape_mode, part, by='raw', prelude=False):
    """x: codes xs, y: codes ys; shape_mode: 'outer' (n,1)x(1,m) | 'vec_scalar' (n,)x() | 'scalar_vec' ()x(m,) | 'scalar' ()x()"""
    case = {'part': part, 'fx': list(fxm), 'fy': list(fym), 'xs': list(xs), 'ys': list(ys), 'op': op, 'route': route, 'shape': shape_mode,
            'by': by, 'prelude': prelude}
    transposed = False
    if shape_mode == 'outer_T':
        # both operands are transposed views of (m, n) arrays (not C-contiguous); element (i, j) pairs xs[i] with ys[j]
        transposed = True
        shx, shy = (len(ys), len(xs)), (len(ys), len(xs))
        pairs = [(a, b) for a in xs for b in ys]
        eshape = (len(xs), len(ys))
    elif shape_mode == 'outer':
        shx, shy = (len(xs), 1), (1, len(ys))
        pairs = [(a, b) for a in xs for b in ys]
        eshape = (len(xs), len(ys))
    elif shape_mode == 'vec_scalar':
        shx, shy = (len(xs),), ()
        pairs = [(a, ys[0]) for a in xs]
        eshape = (len(xs),)
    elif shape_mode == 'scalar_vec':
        shx, shy = (), (len(ys),)
        pairs = [(xs[0], b) for b in ys]
        eshape = (len(ys),)
    elif shape_mode == 'self':
        # the SAME object on both sides (x op x); fxm == fym, ys ignored
        shx = shy = (len(xs),)
        pairs = [(a, a) for a in xs]
        eshape = (len(xs),)
    else:
        shx, shy = (), ()
        pairs = [(xs[0], ys[0])]
        eshape = ()
    acc.dim('built_by', by, len(pairs))
    acc.evaluations += len(pairs)
    acc.transitions += 1
    acc.dim('op', op, len(pairs))
    acc.dim('route', route, len(pairs))
    acc.dim('shape', shape_mode, len(pairs))
    mixed = fxm.signed != fym.signed or fxm.n_frac != fym.n_frac
    acc.nontrivial += sum(1 for a, b in pairs if mixed or a in (fxm.lo, fxm.hi) or b in (fym.lo, fym.hi))
    try:
        if transposed:
            x = build(fxm, [a for b in ys for a in xs], shx, by).T         # x.T[i, j] == xs[i]
            y = build(fym, [b for b in ys for a in xs], shy, by).T         # y.T[i, j] == ys[j]
        else:
            x = build(fxm, xs, shx, by)
            y = x if shape_mode == 'self' else build(fym, ys, shy, by)
        if prelude:
            # earlier operations on the same operands with OTHER result sizes must not influence the optimal-sizing result
            fx_fn = {'+': fx.add, '-': fx.sub, '*': fx.mul}[op]
            for kw in ({'sizing': 'same'}, {'sizing': 'smallest'}, {'out': Fxp(np.zeros(eshape), True, 24, 1)}):
                try:
                    fx_fn(x, y, **kw)
                    acc.transitions += 1
                except Exception:
                    pass
        ox, oy = obs(x), obs(y)
        z = apply(op, route, x, y)
        got = codes(z)
        fl = flags(z)
        gz = fmt_of(z)
    except Exception as e:
        acc.violation('exception', case, '%s %s %s route=%s %s raised %r' % (fxm.dtype, op, fym.dtype, route, shape_mode, e),
                      {'part': part, 'op': op, 'route': route})
        return
    if not isinstance(z, Fxp):
        acc.violation('type', case, 'result is %r' % type(z), {'part': part, 'op': op, 'route': route})
        return
    fz = mul_fmt(fxm, fym) if op == '*' else add_fmt(fxm, fym)
    if gz != fz:
        acc.violation('format', case, '%s %s %s route=%s: result format %s, growth rule says %s' % (fxm.dtype, op, fym.dtype, route, gz.dtype, fz.dtype),
                      {'part': part, 'op': op, 'route': route})
        return
    exp, eo, eu, ei = [], False, False, by == 'env:flagged'          # flagged operands: only their inaccuracy travels to the result
    for a, b in pairs:
        if op == '*':
            r = a * b
        else:
            _, r = expected(op, fxm, fym, a, b)
        if fz.lo <= r <= fz.hi:
            exp.append(r)
        elif op == '-' and not fz.signed and r < 0:
            exp.append(0)                       # the single exception: negative difference of two unsigned operands (saturate)
            eu, ei = True, True
            acc.outcome('unsigned_negative_difference')
        else:
            exp.append(None)                    # the growth rule itself cannot hold the result: would falsify the property statement
    if None in exp:
        i = exp.index(None)
        acc.violation('oracle_range', dict(case, xs=[pairs[i][0]], ys=[pairs[i][1]], shape='scalar'),
                      'exact result of code %d %s code %d does not fit the documented result format %s' % (pairs[i][0], op, pairs[i][1], fz.dtype),
                      {'part': part, 'op': op}, full=case)
        return
    for c in set(exp):
        acc.states.add((fz, c))
    if got != exp or tuple(np.shape(z.val)) != eshape:
        bad = [i for i in range(len(pairs)) if i >= len(got) or got[i] != exp[i]]
        i = bad[0] if bad else 0
        acc.violation('value', dict(case, xs=[pairs[i][0]], ys=[pairs[i][1]], shape='scalar'),
                      '%s code %d %s %s code %d route=%s %s: result code %s (format %s, shape %s), exact result is %d'
                      % (fxm.dtype, pairs[i][0], op, fym.dtype, pairs[i][1], route, shape_mode, got[i] if i < len(got) else None, gz.dtype,
                         np.shape(z.val), exp[i]), {'part': part, 'op': op, 'route': route}, full=case)
    elif fl != (eo, eu, ei):
        acc.violation('flags', case, '%s %s %s route=%s: flags %s expected %s' % (fxm.dtype, op, fym.dtype, route, fl, (eo, eu, ei)),
                      {'part': part, 'op': op, 'route': route})
    if obs(x) != ox or obs(y) != oy:
        acc.violation('operand_changed', case, 'operands changed by %s' % op, {'part': part, 'op': op})
    acc.sample(dict(case, xs=list(xs)[:3], ys=list(ys)[:3]), 1)


# ------------------------------------------------------------------------------------------ expression trees
LEAF_FORMATS = (Fmt(True, 4, 2), Fmt(False, 3, 0), Fmt(True, 3, 4), Fmt(False, 4, 5), Fmt(True, 2, -1), Fmt(False, 2, 1))


def leaves(nfmt):
    out = []
    for f in LEAF_FORMATS[:nfmt]:
        for c in sorted({f.lo, f.hi, -1 if f.signed else 1}):
            out.append((f, c))
    return out


def tree_closure(acc, nfmt, depth, lo_idx, hi_idx, onesided_from):
    """S0 = leaves; S_{d+1} = S_d u {a op b}; elements are (format, code) with a live object; dedup on (format, code).
    Work is split over shards by the index range [lo_idx, hi_idx) of the left operand at the last level."""
    S = {}
    for f, c in leaves(nfmt):
        S[(f, c)] = Fxp(c, f.signed, f.n_word, f.n_frac, raw=True)
    base = dict(S)
    level = dict(S)
    for d in range(1, depth + 1):
        last = d == depth
        keys = sorted(S.keys())
        new = {}
        if d >= onesided_from:
            left = sorted(level.keys())          # only elements created at the previous level ...
            right = sorted(base.keys())          # ... against leaves (both operand orders)
            combos = [(a, b) for a in left for b in right] + [(b, a) for a in left for b in right]
        else:
            combos = [(a, b) for a in keys for b in keys]
        if last:
            combos = combos[lo_idx:hi_idx] if hi_idx is not None else combos[lo_idx:]
        for (ka, kb) in combos:
            a, b = S[ka], S[kb]
            for op in OPS:
                fz = mul_fmt(ka[0], kb[0]) if op == '*' else add_fmt(ka[0], kb[0])
                if fz.n_word > 53:
                    acc.outcome('pruned_word>53')
                    continue
                if op == '*':
                    r = ka[1] * kb[1]
                else:
                    r = expected(op, ka[0], kb[0], ka[1], kb[1])[1]
                case = {'part': 'T', 'a': [list(ka[0]), ka[1]], 'b': [list(kb[0]), kb[1]], 'op': op, 'depth': d}
                acc.evaluations += 1
                acc.transitions += 1
                acc.nontrivial += 1
                neg_u = (op == '-' and not fz.signed and r < 0)
                try:
                    z = apply(op, 'operator', a, b)
                    gc, gf, fl = codes(z)[0], fmt_of(z), flags(z)
                except Exception as e:
                    acc.violation('exception', case, 'tree: (%s code %d) %s (%s code %d) raised %r' % (ka[0].dtype, ka[1], op, kb[0].dtype, kb[1], e),
                                  {'part': 'T', 'op': op})
                    continue
                er = 0 if neg_u else r
                if gf != fz or gc != er or fl != ((False, True, True) if neg_u else (False, False, False)):
                    acc.violation('tree', case, 'tree depth %d: (%s code %d) %s (%s code %d) = %s code %d flags %s, expected %s code %d'
                                  % (d, ka[0].dtype, ka[1], op, kb[0].dtype, kb[1], gf.dtype, gc, fl, fz.dtype, er), {'part': 'T', 'op': op})
                    continue
                acc.states.add((fz, er))
                if neg_u:
                    continue
                if (fz, er) not in S and (fz, er) not in new:
                    new[(fz, er)] = z
                    acc.outcome('tree_new')
                else:
                    acc.outcome('tree_revisit')
        if not last:
            S.update(new)
            level = new
    for k, o in base.items():
        if codes(o) != [k[1]] or flags(o) != (False, False, False):
            acc.violation('operand_changed', {'part': 'T', 'leaf': [list(k[0]), k[1]]}, 'leaf changed during tree evaluation', {'part': 'T'})
    return len(S)


# ------------------------------------------------------------------------------------------ driver
def corner_formats(nws):
    out = []
    for s in (True, False):
        for nw in nws:
            for nf in sorted({-1, 0, 1, nw // 2, nw - 1, nw, nw + 1}):
                out.append(Fmt(s, nw, nf))
    return out


def bounds(tier, seed):
    return {'a_small_scope': 'all ordered pairs of formats with n_word<=%d, n_frac -1..n_word+1, both signednesses x every code pair (broadcast '
                             'column x row; transposed 2-d views; after a prelude of same/smallest/out= operations on the same operands) x {+,-,*} x 3 call routes (operator route only when a word exceeds 3, thorough 4); vec x scalar and scalar x vec shapes; scalar x scalar for n_word<=%d'
                             % ((4, 2) if tier == 'quick' else (5, 3)),
            'tmpl_environment': 'the n_word<=3 sweep repeated with a class-level template (Fxp.template) of either signedness in force',
            'b_corners': 'all ordered pairs of formats n_word in %s, n_frac in {-1,0,1,mid,n-1,n,n+1} with result word<=53 x {lo,hi,interior}^2 x 3 ops'
                         % ([1, 2, 3, 5, 8, 13, 16, 21, 26] if tier == 'quick' else '1..26'),
            'c_trees': 'closure of %d leaf formats x {lo,hi,+-1 code} under + - *: full to depth %d, then one-sided (new elements against leaves, '
                       'both orders) to depth %d (levels above 2: operands rebuilt from their canonical (format, code) state); dedup on (format, code); '
                       'result word<=53' % ((5, 2, 2) if tier == 'quick' else (6, 2, 4)),
            'seed': seed}


def shards(tier, seed):
    out = []
    k = 4 if tier == 'quick' else 5
    fs = small_formats(k)
    for i in range(len(fs)):
        out.append({'part': 'a', 'k': k, 'i': i, 'ks': 2 if tier == 'quick' else 3, 'k_routes': 3 if tier == 'quick' else 4})
    nfs = len(small_formats(3))
    for lo in range(0, nfs, 6):
        out.append({'part': 'tmpl', 'lo': lo, 'hi': lo + 6})
    nws = [1, 2, 3, 5, 8, 13, 16, 21, 26] if tier == 'quick' else list(range(1, 27))
    cf = corner_formats(nws)
    for i in range(0, len(cf), 4 if tier == 'quick' else 2):
        out.append({'part': 'b', 'nws': nws, 'i': i, 'n': 4 if tier == 'quick' else 2})
    if tier == 'quick':
        for j in range(16):
            out.append({'part': 'T', 'nfmt': 5, 'depth': 2, 'slice': [j, 16], 'onesided_from': 99})
    else:
        for j in range(32):
            out.append({'part': 'T', 'nfmt': 6, 'depth': 2, 'slice': [j, 32], 'onesided_from': 99})
        for j in range(64):
            out.append({'part': 'T', 'nfmt': 6, 'depth': 3, 'slice': [j, 64], 'onesided_from': 3, 'canonical': True})
        for j in range(128):
            out.append({'part': 'T', 'nfmt': 4, 'depth': 4, 'slice': [j, 128], 'onesided_from': 3, 'canonical': True})
    return out


def run_shard(sh):
    reset_class_state()
    acc = Acc()
    if sh['part'] == 'tmpl':
        # the same small-scope sweep with a class-level template in force (Fxp.template): results of + - * are built through
        # the constructor, which then starts from a copy of the template; sizes and values must not be affected
        fs = small_formats(3)
        for tf in (Fmt(False, 8, 2), Fmt(True, 6, 1)):
            from ..common import Fxp as _F
            _F.template = None
            tmpl = _F(None, tf.signed, tf.n_word, tf.n_frac)
            _F.template = tmpl
            try:
                for fxm in fs[sh['lo']:sh['hi']]:
                    xs = list(range(fxm.lo, fxm.hi + 1))
                    for fym in fs:
                        ys = list(range(fym.lo, fym.hi + 1))
                        for op in OPS:
                            judge_pair(acc, fxm, fym, xs, ys, op, 'operator', 'outer', 'tmpl')
                            judge_pair(acc, fxm, fym, [xs[0]], [ys[-1]], op, 'function', 'scalar', 'tmpl')
            finally:
                _F.template = None
        return acc
    if sh['part'] == 'a':
        fs = small_formats(sh['k'])
        fxm = fs[sh['i']]
        xs = list(range(fxm.lo, fxm.hi + 1))
        for fym in fs:
            ys = list(range(fym.lo, fym.hi + 1))
            big = max(fxm.n_word, fym.n_word) > sh.get('k_routes', 3)
            for op in OPS:
                if not big:
                    # FIRST use of this format pair in this process is an operation with another result size (then the judged one)
                    judge_pair(acc, fxm, fym, xs, ys, op, 'operator', 'outer', 'a', 'raw', True)
                for route in (ROUTES[:1] if big else ROUTES):
                    judge_pair(acc, fxm, fym, xs, ys, op, route, 'outer', 'a')
                judge_pair(acc, fxm, fym, xs, ys, op, 'operator', 'outer', 'a', 'value')
                if not big:
                    judge_pair(acc, fxm, fym, xs, ys, op, 'operator', 'outer_T', 'a')                  # transposed 2-d operands
                    # operands reached through a history (common.build_aged): every history for the smallest formats, one per
                    # (pair, operator) in rotation above
                    hows = AGED if max(fxm.n_word, fym.n_word) <= 2 else (AGED[(sh['i'] + fs.index(fym) + OPS.index(op)) % len(AGED)],)
                    for how in hows:
                        judge_pair(acc, fxm, fym, xs, ys, op, ROUTES[(fs.index(fym) + OPS.index(op)) % 3], 'outer', 'a', how)
                if not big:
                    # a second public feature in force (common.ENVS): configuration options, class template, subclass, flagged operands
                    envs = ENVS if max(fxm.n_word, fym.n_word) <= 2 else (ENVS[(sh['i'] + fs.index(fym) + OPS.index(op)) % len(ENVS)],)
                    for env in envs:
                        judge_pair(acc, fxm, fym, xs, ys, op, ROUTES[(fs.index(fym) + OPS.index(op) + 1) % 3], 'outer', 'a', 'env:' + env)
                if fxm == fym:
                    judge_pair(acc, fxm, fym, xs, xs, op, 'operator', 'self', 'a')
                    judge_pair(acc, fxm, fym, xs, xs, op, 'function', 'self', 'a', 'value')
                if big:
                    continue
                judge_pair(acc, fxm, fym, xs, [ys[0]], op, 'operator', 'vec_scalar', 'a')
                judge_pair(acc, fxm, fym, [xs[-1]], ys, op, 'numpy', 'scalar_vec', 'a')
                if fxm.n_word <= sh['ks'] and fym.n_word <= sh['ks']:
                    for a in xs:
                        for b in ys:
                            judge_pair(acc, fxm, fym, [a], [b], op, 'operator', 'scalar', 'a')
    elif sh['part'] == 'b':
        cf = corner_formats(sh['nws'])
        for fxm in cf[sh['i']:sh['i'] + sh['n']]:
            xs = sorted({fxm.lo, fxm.hi, fxm.hi // 3 if fxm.hi > 2 else fxm.hi})
            for fym in cf:
                ys = sorted({fym.lo, fym.hi, (fym.lo // 3) if fym.signed else fym.hi // 2})
                for op in OPS:
                    fz = mul_fmt(fxm, fym) if op == '*' else add_fmt(fxm, fym)
                    if fz.n_word > 53:
                        acc.skipped += 1
                        continue
                    judge_pair(acc, fxm, fym, xs, ys, op, 'operator', 'outer', 'b')
                    if fxm == fym:
                        judge_pair(acc, fxm, fym, xs, xs, op, 'operator', 'self', 'b')
    else:
        # size of the last level is only known by building it; slice j of n by index
        j, n = sh['slice']
        if sh.get('canonical'):
            tree_canonical(acc, sh['nfmt'], sh['depth'], j, n, sh['onesided_from'])
        else:
            tot = tree_size(sh['nfmt'], sh['depth'], sh['onesided_from'])
            lo = tot * j // n
            hi = tot * (j + 1) // n
            tree_closure(acc, sh['nfmt'], sh['depth'], lo, hi, sh['onesided_from'])
    return acc


def model_last_level(nfmt, depth, onesided_from):
    """operand combinations of the last level, computed on the model alone: list of ((fmt_a, code_a), (fmt_b, code_b))"""
    S = set(leaves(nfmt))
    base = set(S)
    level = set(S)
    combos = []
    for d in range(1, depth + 1):
        if d >= onesided_from:
            left, right = sorted(level), sorted(base)
            combos = [(a, b) for a in left for b in right] + [(b, a) for a in left for b in right]
        else:
            keys = sorted(S)
            combos = [(a, b) for a in keys for b in keys]
        if d == depth:
            break
        new = set()
        for ka, kb in combos:
            for op in OPS:
                fz = mul_fmt(ka[0], kb[0]) if op == '*' else add_fmt(ka[0], kb[0])
                if fz.n_word > 53:
                    continue
                r = ka[1] * kb[1] if op == '*' else expected(op, ka[0], kb[0], ka[1], kb[1])[1]
                if op == '-' and not fz.signed and r < 0:
                    continue
                if (fz, r) not in S:
                    new.add((fz, r))
        S |= new
        level = new
    return combos


def tree_canonical(acc, nfmt, depth, j, n, onesided_from):
    """last level of the closure with operands rebuilt from their canonical state (format, code): every element of the closure
    is an object with default configuration, no flag and that code, so an object built raw from (format, code) has the same futures
    under + - * (they read format, codes and configuration only).  Levels <= 2 are also explored on live derived objects."""
    combos = model_last_level(nfmt, depth, onesided_from)
    lo, hi = len(combos) * j // n, len(combos) * (j + 1) // n
    for (ka, kb) in combos[lo:hi]:
        a = Fxp(ka[1], ka[0].signed, ka[0].n_word, ka[0].n_frac, raw=True)
        b = Fxp(kb[1], kb[0].signed, kb[0].n_word, kb[0].n_frac, raw=True)
        for op in OPS:
            fz = mul_fmt(ka[0], kb[0]) if op == '*' else add_fmt(ka[0], kb[0])
            if fz.n_word > 53:
                acc.outcome('pruned_word>53')
                continue
            r = ka[1] * kb[1] if op == '*' else expected(op, ka[0], kb[0], ka[1], kb[1])[1]
            case = {'part': 'T', 'a': [list(ka[0]), ka[1]], 'b': [list(kb[0]), kb[1]], 'op': op, 'depth': depth}
            acc.evaluations += 1
            acc.transitions += 3
            acc.nontrivial += 1
            neg_u = (op == '-' and not fz.signed and r < 0)
            try:
                z = apply(op, 'operator', a, b)
                gc, gf, fl = codes(z)[0], fmt_of(z), flags(z)
            except Exception as e:
                acc.violation('exception', case, 'tree: (%s code %d) %s (%s code %d) raised %r' % (ka[0].dtype, ka[1], op, kb[0].dtype, kb[1], e),
                              {'part': 'T', 'op': op})
                continue
            er = 0 if neg_u else r
            if gf != fz or gc != er or fl != ((False, True, True) if neg_u else (False, False, False)):
                acc.violation('tree', case, 'tree depth %d: (%s code %d) %s (%s code %d) = %s code %d flags %s, expected %s code %d'
                              % (depth, ka[0].dtype, ka[1], op, kb[0].dtype, kb[1], gf.dtype, gc, fl, fz.dtype, er), {'part': 'T', 'op': op})
                continue
            acc.states.add((fz, er))
            acc.outcome('tree_new')


_TS = {}


def tree_size(nfmt, depth, onesided_from):
    """number of operand combinations at the last level (pure model computation, no library calls)"""
    key = (nfmt, depth, onesided_from)
    if key in _TS:
        return _TS[key]
    S = set(leaves(nfmt))
    base = set(S)
    level = set(S)
    n = 0
    for d in range(1, depth + 1):
        keys = sorted(S)
        if d >= onesided_from:
            combos = [(a, b) for a in sorted(level) for b in sorted(base)] * 2
        else:
            combos = [(a, b) for a in keys for b in keys]
        n = len(combos)
        if d == depth:
            break
        new = set()
        if d >= onesided_from:
            left, right = sorted(level), sorted(base)
            combos = [(a, b) for a in left for b in right] + [(b, a) for a in left for b in right]
        for ka, kb in combos:
            for op in OPS:
                fz = mul_fmt(ka[0], kb[0]) if op == '*' else add_fmt(ka[0], kb[0])
                if fz.n_word > 53:
                    continue
                r = ka[1] * kb[1] if op == '*' else expected(op, ka[0], kb[0], ka[1], kb[1])[1]
                if op == '-' and not fz.signed and r < 0:
                    continue
                if (fz, r) not in S:
                    new.add((fz, r))
        S |= new
        level = new
    _TS[key] = n
    return n


def replay(case):
    reset_class_state()
    acc = Acc()
    if case['part'] == 'T':
        if 'a' not in case:
            return []
        (fa, ca), (fb, cb) = case['a'], case['b']
        fa, fb = Fmt(*fa), Fmt(*fb)
        op = case['op']
        fz = mul_fmt(fa, fb) if op == '*' else add_fmt(fa, fb)
        r = ca * cb if op == '*' else expected(op, fa, fb, ca, cb)[1]
        neg_u = op == '-' and not fz.signed and r < 0
        try:
            z = apply(op, 'operator', Fxp(ca, fa.signed, fa.n_word, fa.n_frac, raw=True), Fxp(cb, fb.signed, fb.n_word, fb.n_frac, raw=True))
            if fmt_of(z) != fz or codes(z)[0] != (0 if neg_u else r) or flags(z) != ((False, True, True) if neg_u else (False, False, False)):
                acc.violation('tree', case, 'got %s code %d flags %s, expected %s code %d' % (z.dtype, codes(z)[0], flags(z), fz.dtype, 0 if neg_u else r),
                              {'part': 'T', 'op': op})
        except Exception as e:
            acc.violation('exception', case, repr(e), {'part': 'T', 'op': op})
    elif case['part'] == 'tmpl':
        from ..common import Fxp as _F
        for tf in (Fmt(False, 8, 2), Fmt(True, 6, 1)):
            _F.template = None
            _F.template = _F(None, tf.signed, tf.n_word, tf.n_frac)
            try:
                judge_pair(acc, Fmt(*case['fx']), Fmt(*case['fy']), case['xs'], case['ys'], case['op'], case['route'], case['shape'], 'tmpl')
            finally:
                _F.template = None
    else:
        judge_pair(acc, Fmt(*case['fx']), Fmt(*case['fy']), case['xs'], case['ys'], case['op'], case['route'], case['shape'], case['part'], case.get('by', 'raw'), case.get('prelude', False))
    return acc.violations


def finish(merged, tier, seed):
    for r in ROUTES:
        if merged['dims']['route'].get(r, 0) < 1000:
            raise HarnessError('route %s under-exercised' % r)
    for k in ('unsigned_negative_difference', 'tree_new', 'tree_revisit'):
        if merged['outcomes'].get(k, 0) < 10:
            raise HarnessError('outcome %s under-exercised: %s' % (k, merged['outcomes'].get(k)))
    return {}
