"""C13 - bitwise operators act on the n_word-bit two's-complement word (E1)."""
import numpy as np
from ..runner import Acc, HarnessError
from ..refmodel import Fmt
from .. import alphabet as al
from ..common import AGED, ENVS, Fxp, codes, flags, fmt_of, reset_class_state, build

ID = 'C13'
RULE = ('cases = (x format, y kind [Fxp of either signedness / int mask right / int mask left], operator in {~,&,|,^}, code pair); result must have '
        "x's format and the bitwise combination of the n_word-bit patterns; ~~x == x, ~x == -x-LSB (signed), De Morgan; operands of different word "
        'lengths must raise for each of & | ^ in both orders. non-trivial = a negative code or mixed signedness; distinct by construction')
ASSUMPTIONS = ['array op array is not claimed by the property and not judged (array x with scalar y / mask is)']

BIN = {'&': lambda a, b: a & b, '|': lambda a, b: a | b, '^': lambda a, b: a ^ b}
BINL = ('&', '|', '^')
C13_ENVS = tuple(e for e in ENVS if e != 'flagged')       # results are deep copies of x: its status record travels with them
WIDE_WORDS = (16, 31, 32, 33, 63, 64, 65, 100, 128)


def pat(c, n):
    return c % (1 << n)


def unpat(p, f):
    return p - (1 << f.n_word) if (f.signed and p >> (f.n_word - 1)) else p


def mkx(f, cs, by='raw'):
    """cs: list -> array object; int -> scalar object"""
    if by != 'raw' and f.n_word < 64:
        # 'value' or one of common.AGED (the operand reached through a history)
        return build(f, cs if isinstance(cs, list) else [cs], (len(cs),) if isinstance(cs, list) else (), by)
    if isinstance(cs, list):
        arr = np.array(cs, dtype=object if f.n_word >= 64 else np.int64)
        return Fxp(arr, f.signed, f.n_word, f.n_frac, raw=True)
    return Fxp(cs, f.signed, f.n_word, f.n_frac, raw=True)


def do(op, a, b, inplace=False):
    if inplace:                     # x &= y etc. (the result is whatever the name is bound to afterwards)
        if op == '&':
            a &= b
        elif op == '|':
            a |= b
        else:
            a ^= b
        return a
    return a & b if op == '&' else (a | b if op == '|' else a ^ b)


def judge_binary(acc, fxm, xs, ykind, yf, yc, op, part, by='raw', inplace=False, ovf='saturate'):
    """xs: list of x codes (array) or single int (scalar); ykind: 'fxp' | 'mask_r' | 'mask_l'"""
    n = fxm.n_word
    arr = isinstance(xs, list)
    xl = xs if arr else [xs]
    case = {'part': part, 'fx': list(fxm), 'xs': xs, 'ykind': ykind, 'fy': list(yf) if yf else None, 'yc': yc, 'op': op, 'by': by, 'inplace': inplace, 'ovf': ovf}
    acc.dim('built_by', by, len(xl))
    acc.dim('form', ('inplace' if inplace else 'binary') + '/' + ovf, len(xl))
    acc.evaluations += len(xl)
    acc.transitions += 1
    acc.dim('ykind', ykind, len(xl))
    acc.dim('op', op, len(xl))
    neg = (yc < 0) or (yf is not None and yf.signed != fxm.signed)
    acc.nontrivial += sum(1 for c in xl if c < 0 or neg)
    try:
        x = mkx(fxm, xs, by)
        x.config.overflow = ovf
        x0 = x
        if ykind == 'fxp':
            y = mkx(yf, yc, by)
            z = do(op, x, y, inplace)
        elif ykind == 'mask_r':
            z = do(op, x, yc, inplace)
        else:
            z = do(op, yc, x)
        x = x0 if not inplace else mkx(fxm, xs, by)          # (for the operand-unchanged test below)
        got = codes(z)
    except Exception as e:
        acc.violation('exception', case, '%s codes %s %s %s %s raised %r' % (fxm.dtype, str(xl)[:40], op, ykind, yc, e),
                      {'part': part, 'op': op, 'ykind': ykind, 'wide': n >= 64})
        return
    exp = [unpat(BIN[op](pat(c, n), pat(yc, n)), fxm) for c in xl]
    for c in set(exp):
        acc.states.add((fxm, c))
    if fmt_of(z) != fxm or got != exp or flags(z)[:2] != (False, False) or codes(x) != xl:
        i = [j for j in range(len(exp)) if j >= len(got) or got[j] != exp[j]]
        i = i[0] if i else 0
        acc.violation('pattern', dict(case, xs=xl[i]) if arr else case,
                      '%s code %d %s %s %s: result %s code %s flags %s, expected %s code %d'
                      % (fxm.dtype, xl[i], op, ('%s code' % yf.dtype) if yf else ykind, yc, z.dtype, got[i] if i < len(got) else None, flags(z),
                         fxm.dtype, exp[i]), {'part': part, 'op': op, 'ykind': ykind}, full=case)
    acc.sample(dict(case, xs=xl[:3] if arr else xs), 1)


def judge_invert(acc, fxm, xs, part, ovf='saturate', by='raw'):
    n = fxm.n_word
    arr = isinstance(xs, list)
    xl = xs if arr else [xs]
    case = {'part': part, 'fx': list(fxm), 'xs': xs, 'op': '~', 'ovf': ovf, 'by': by}
    acc.evaluations += 3 * len(xl)
    acc.transitions += 3
    acc.nontrivial += sum(1 for c in xl if c < 0)
    acc.dim('op', '~', len(xl))
    try:
        x = mkx(fxm, xs, by)
        x.config.overflow = ovf
        z = ~x
        zz = ~z
        got, got2 = codes(z), codes(zz)
    except Exception as e:
        acc.violation('exception', case, '~ on %s codes %s raised %r' % (fxm.dtype, str(xl)[:40], e), {'part': part, 'op': '~', 'wide': n >= 64})
        return
    exp = [unpat(pat(c, n) ^ ((1 << n) - 1), fxm) for c in xl]
    if fmt_of(z) != fxm or got != exp or flags(z)[:2] != (False, False):
        i = [j for j in range(len(exp)) if got[j] != exp[j]]
        i = i[0] if i else 0
        acc.violation('pattern', dict(case, xs=xl[i]) if arr else case, '~(%s code %d) = %s code %d flags %s, expected code %d'
                      % (fxm.dtype, xl[i], z.dtype, got[i], flags(z), exp[i]), {'part': part, 'op': '~'}, full=case)
        return
    if got2 != xl:
        acc.violation('involution', case, '~~x != x on %s' % fxm.dtype, {'part': part, 'op': '~'})
    if fxm.signed and got != [-c - 1 for c in xl]:
        acc.violation('neg_identity', case, '~x != -x - LSB on %s' % fxm.dtype, {'part': part, 'op': '~'})
    acc.outcome('invert_ok', len(xl))


def judge_arrays(acc, fxm, yf, xs, ys, op, shape_mode, part, by='raw'):
    """both operands arrays: 'outer' (n,1)x(1,m) every code pair in one operation | 'vec' equal lengths | 'mat_vec' (2,k)x(k,) |
    'scalar_vec' ()x(m,)"""
    n = fxm.n_word
    case = {'part': part, 'arrays': shape_mode, 'fx': list(fxm), 'fy': list(yf), 'xs': list(xs), 'ys': list(ys), 'op': op, 'by': by}
    if shape_mode == 'outer':
        shx, shy, pairs, eshape = (len(xs), 1), (1, len(ys)), [(a, b) for a in xs for b in ys], (len(xs), len(ys))
    elif shape_mode == 'vec':
        m = min(len(xs), len(ys))
        xs, ys = xs[:m], ys[:m]
        shx, shy, pairs, eshape = (m,), (m,), list(zip(xs, ys)), (m,)
    elif shape_mode == 'mat_vec':
        k = min(len(xs) // 2, len(ys))
        if k < 1:
            return
        xs, ys = xs[:2 * k], ys[:k]
        shx, shy, pairs, eshape = (2, k), (k,), [(xs[i * k + j], ys[j]) for i in range(2) for j in range(k)], (2, k)
    else:
        xs = xs[:1]
        shx, shy, pairs, eshape = (), (len(ys),), [(xs[0], b) for b in ys], (len(ys),)
    acc.evaluations += len(pairs)
    acc.transitions += 1
    acc.dim('ykind', 'fxp_array/' + shape_mode, len(pairs))
    acc.dim('op', op, len(pairs))
    acc.nontrivial += sum(1 for a, b in pairs if a < 0 or b < 0 or yf.signed != fxm.signed)
    try:
        if n >= 64:
            x = Fxp(np.array(xs, dtype=object).reshape(shx) if shx else xs[0], fxm.signed, n, fxm.n_frac, raw=True)
            y = Fxp(np.array(ys, dtype=object).reshape(shy), yf.signed, n, yf.n_frac, raw=True)
        else:
            x, y = build(fxm, xs, shx, by), build(yf, ys, shy, by)
        z = do(op, x, y)
        got = codes(z)
    except Exception as e:
        acc.violation('exception', case, '%s %s %s with array operands (%s) raised %r' % (fxm.dtype, op, yf.dtype, shape_mode, e),
                      {'part': part, 'op': op, 'ykind': 'fxp_array', 'wide': n >= 64})
        return
    exp = [unpat(BIN[op](pat(a, n), pat(b, n)), fxm) for a, b in pairs]
    if fmt_of(z) != fxm or got != exp or tuple(np.shape(z.val)) != eshape or flags(z)[:2] != (False, False) or codes(x) != list(xs) or codes(y) != list(ys):
        i = [j for j in range(len(exp)) if j >= len(got) or got[j] != exp[j]]
        i = i[0] if i else 0
        acc.violation('pattern', case, '%s code %d %s %s code %d (array operands, %s): result %s shape %s code %s, expected %s code %d'
                      % (fxm.dtype, pairs[i][0], op, yf.dtype, pairs[i][1], shape_mode, z.dtype, np.shape(z.val), got[i] if i < len(got) else None,
                         fxm.dtype, exp[i]), {'part': part, 'op': op, 'ykind': 'fxp_array'})
    acc.sample(dict(case, xs=list(xs)[:3], ys=list(ys)[:3]), 1)


def judge_demorgan(acc, fxm, a, b, part):
    case = {'part': part, 'fx': list(fxm), 'a': a, 'b': b, 'demorgan': True}
    acc.evaluations += 2
    acc.transitions += 8
    try:
        x, y = mkx(fxm, a), mkx(fxm, b)
        l1, r1 = codes(~(x & y)), codes((~x) | (~y))
        l2, r2 = codes(~(x | y)), codes((~x) & (~y))
    except Exception as e:
        acc.violation('exception', case, 'De Morgan on %s codes %d,%d raised %r' % (fxm.dtype, a, b, e), {'part': part, 'op': 'demorgan'})
        return
    if l1 != r1 or l2 != r2:
        acc.violation('demorgan', case, 'De Morgan fails on %s codes %d, %d: %s vs %s / %s vs %s' % (fxm.dtype, a, b, l1, r1, l2, r2),
                      {'part': part, 'op': 'demorgan'})
    acc.outcome('demorgan_ok')


def judge_history(acc, fxm, grow, part, resign=False):
    """~x at one word length, then the object (or a like= derivative) changes format - widened by `grow` bits and / or (resign) given
    the other signedness at the same fraction length - then ~ & | ^ again: results must be those of the new format.  A re-signed
    object holds its old value saturated into the new range (C10), which is the code the expected patterns start from."""
    n = fxm.n_word
    f2 = Fmt((not fxm.signed) if resign else fxm.signed, n + grow, fxm.n_frac)
    for via in ('resize', 'like=', 'deepcopy_resize'):
        for c in sorted({fxm.lo, fxm.hi, 1, -1 if fxm.signed else 2, fxm.hi - 1, (fxm.hi + 1) // 2 if not fxm.signed else fxm.lo + 1}):
            if not (fxm.lo <= c <= fxm.hi):
                continue
            case = {'part': part, 'history': True, 'fx': list(fxm), 'grow': grow, 'via': via, 'code': c, 'resign': resign}
            acc.evaluations += 4
            acc.transitions += 8
            acc.nontrivial += 1
            try:
                x = mkx(fxm, c)
                z0 = ~x
                m0 = x & 1
                if via == 'resize':
                    x.resize(signed=f2.signed, n_word=f2.n_word)
                    y = x
                elif via == 'like=':
                    y = Fxp(x, like=x, signed=f2.signed, n_word=f2.n_word)
                else:
                    y = x.deepcopy()
                    y.resize(signed=f2.signed, n_word=f2.n_word)
                got = (codes(~y), codes(y & 5), codes(y | 5), codes(y ^ 5), fmt_of(~y))
            except Exception as e:
                acc.violation('exception', case, '%s changed to %s via %s raised %r' % (fxm.dtype, f2.dtype, via, e), {'part': part, 'aspect': 'history'})
                continue
            n2 = f2.n_word
            pc = pat(min(max(c, f2.lo), f2.hi), n2)
            exp = ([unpat(pc ^ ((1 << n2) - 1), f2)], [unpat(pc & 5, f2)], [unpat(pc | 5 % (1 << n2), f2)], [unpat(pc ^ 5 % (1 << n2), f2)], f2)
            if got != exp:
                acc.violation('history', case, '%s code %d: ~x, then changed to %s via %s: (~, &5, |5, ^5) = %s, expected %s'
                              % (fxm.dtype, c, f2.dtype, via, got[:4], exp[:4]), {'part': part, 'aspect': 'history'})
            else:
                acc.outcome('history_ok')


def judge_2d(acc, fxm, part):
    """2-d operands in C order and as transposed (not C-contiguous) views: element (i, j) must combine the codes at (i, j)"""
    cs = list(range(fxm.lo, fxm.hi + 1))[:12]
    while len(cs) < 6:
        cs = cs + cs
    cs = cs[:6]
    n = fxm.n_word
    for layout in ('C', 'T', 'F', 'rev'):
        case = {'part': part, 'twod': True, 'fx': list(fxm), 'layout': layout, 'codes': cs}
        acc.evaluations += 4
        acc.transitions += 5
        acc.nontrivial += 1
        try:
            base = np.array(cs, dtype=np.int64)
            if layout == 'C':
                x = Fxp(base.reshape(2, 3), fxm.signed, n, fxm.n_frac, raw=True)
                logical = base.reshape(2, 3)
            elif layout == 'T':
                x = Fxp(base.reshape(3, 2), fxm.signed, n, fxm.n_frac, raw=True).T
                logical = base.reshape(3, 2).T
            elif layout == 'F':
                x = Fxp(np.asfortranarray(base.reshape(2, 3)), fxm.signed, n, fxm.n_frac, raw=True)
                logical = base.reshape(2, 3)
            else:
                x = Fxp(base.reshape(2, 3), fxm.signed, n, fxm.n_frac, raw=True)[::-1]
                logical = base.reshape(2, 3)[::-1]
            lg = [int(v) for v in logical.ravel().tolist()]
            if codes(x) != lg:
                raise AssertionError('layout construction')
            y = Fxp(unpat(pat(3, n), fxm), fxm.signed, n, 0, raw=True)
            got = (codes(~x), codes(x & y), codes(x | 5), codes(6 ^ x))
        except Exception as e:
            acc.violation('exception', case, '%s 2-d layout %s raised %r' % (fxm.dtype, layout, e), {'part': part, 'aspect': '2d'})
            continue
        mask = (1 << n) - 1
        exp = ([unpat(pat(c, n) ^ mask, fxm) for c in lg], [unpat(pat(c, n) & pat(3, n), fxm) for c in lg],
               [unpat(pat(c, n) | pat(5, n), fxm) for c in lg], [unpat(pat(c, n) ^ pat(6, n), fxm) for c in lg])
        if got != exp:
            acc.violation('layout', case, '%s 2-d operand in layout %s: (~x, x&y, x|5, 6^x) = %s, expected %s' % (fxm.dtype, layout, got, exp),
                          {'part': part, 'aspect': '2d'})
        else:
            acc.outcome('layout_ok')


def judge_reject(acc, nx, ny, sx, sy, op, part):
    case = {'part': part, 'nx': nx, 'ny': ny, 'sx': sx, 'sy': sy, 'op': op, 'reject': True}
    acc.evaluations += 1
    acc.transitions += 1
    acc.nontrivial += 1
    x = Fxp(1, sx, nx, 0, raw=True)
    y = Fxp(1, sy, ny, 0, raw=True)
    try:
        z = do(op, x, y)
    except Exception:
        acc.outcome('rejected')
        return
    acc.violation('not_rejected', case, '%s %s %s with different word lengths returned %s instead of raising' % (x.dtype, op, y.dtype, getattr(z, 'dtype', z)),
                  {'part': part, 'op': op})


def masks(f):
    n = f.n_word
    s = {0, 1, (1 << n) - 1, 1 << (n - 1), (1 << n) // 3, -1, -(1 << (n - 1))}
    if n > 2:
        s |= {5 % (1 << n), -2}
    return sorted(m for m in s if -(1 << (n - 1)) <= m <= (1 << n) - 1)


def bounds(tier, seed):
    k = 5 if tier == 'quick' else 6
    return {'small_scope': 'n_word<=%d: every x code (array of all codes, and scalars for n_word<=%d) x every y code of an Fxp of the same word length '
                           'and either signedness (n_frac(y) in {0, n_word}) x n_frac(x) in 0..n_word x {&,|,^}; int masks on either side; ~ with '
                           'involution and -x-LSB; De Morgan on all code pairs (n_word<=%d)' % (k, 3 if tier == 'quick' else 4, 3 if tier == 'quick' else 4),
            'wide': 'n_word in %s: boundary + walking-bit + seed codes x 8 y codes / masks' % (WIDE_WORDS,),
            'histories': '~x, then the object / a like= derivative / a deep copy widened by 1, 2, 5 bits or given the other signedness at the same / one more bit, then ~ & | ^ again; 2-d operands in C, transposed, '
                         'Fortran and reversed-view layouts',
            'rejection': 'all ordered pairs of different word lengths 1..8 x signedness mixes x {&,|,^}', 'seed': seed}


def shards(tier, seed):
    out = []
    k = 5 if tier == 'quick' else 6
    for nw in range(1, k + 1):
        for sx in (True, False):
            out.append({'part': 'S', 'nw': nw, 'sx': sx, 'ks': 3 if tier == 'quick' else 4})
    for nw in WIDE_WORDS:
        for sx in (True, False):
            out.append({'part': 'W', 'nw': nw, 'sx': sx, 'seed': seed})
    out.append({'part': 'R'})
    return out


def run_shard(sh):
    reset_class_state()
    acc = Acc()
    if sh['part'] == 'S':
        nw = sh['nw']
        for nf in range(0, nw + 1):
            fxm = Fmt(sh['sx'], nw, nf)
            xs = list(range(fxm.lo, fxm.hi + 1))
            judge_invert(acc, fxm, xs, 'S')
            judge_invert(acc, fxm, xs, 'S', 'wrap')
            for how in AGED:
                judge_invert(acc, fxm, xs, 'S', 'saturate', how)
                judge_invert(acc, fxm, xs[-1], 'S', 'saturate', how)
            for c in xs:
                judge_invert(acc, fxm, c, 'S')
                judge_invert(acc, fxm, c, 'S', 'wrap')
            for sy in (True, False):
                for nfy in sorted({0, nw}):
                    yf = Fmt(sy, nw, nfy)
                    ys_all = list(range(yf.lo, yf.hi + 1))
                    for op in BIN:
                        for sm in ('outer', 'vec', 'mat_vec', 'scalar_vec'):
                            judge_arrays(acc, fxm, yf, xs, ys_all, op, sm, 'S')
                        judge_arrays(acc, fxm, yf, xs, ys_all, op, 'outer', 'S', 'value' if nf in (0, nw) else AGED[(nf + nfy) % len(AGED)])
                    for yc in range(yf.lo, yf.hi + 1):
                        for op in BIN:
                            judge_binary(acc, fxm, xs, 'fxp', yf, yc, op, 'S')
                            if nf in (0, nw):
                                judge_binary(acc, fxm, xs, 'fxp', yf, yc, op, 'S', 'value')
                                judge_binary(acc, fxm, xs, 'fxp', yf, yc, op, 'S', 'raw', True)            # x &= y
                                judge_binary(acc, fxm, xs, 'fxp', yf, yc, op, 'S', 'raw', False, 'wrap')   # x configured to wrap
                                judge_binary(acc, fxm, xs[0], 'fxp', yf, yc, op, 'S', 'raw', True, 'wrap')
                                if yc in (yf.lo, 1):
                                    for env in (C13_ENVS if nw <= 2 else (C13_ENVS[(yc + nfy + BINL.index(op) + int(sy)) % len(C13_ENVS)],)):
                                        judge_binary(acc, fxm, xs, 'fxp', yf, yc, op, 'S', 'env:' + env)
                                        judge_binary(acc, fxm, xs[0], 'fxp', yf, yc, op, 'S', 'env:' + env)
                                if yc in (yf.lo, yf.hi, 1):
                                    # operands reached through a history: all of them for n_word<=2, one in rotation above
                                    for how in (AGED if nw <= 2 else (AGED[(yc + nfy + BINL.index(op) + int(sy)) % len(AGED)],)):
                                        judge_binary(acc, fxm, xs, 'fxp', yf, yc, op, 'S', how)
                            if nw <= sh['ks'] and nf in (0, nw):
                                for c in xs:
                                    judge_binary(acc, fxm, c, 'fxp', yf, yc, op, 'Ss')
            for m in masks(fxm):
                for op in BIN:
                    judge_binary(acc, fxm, xs, 'mask_r', None, m, op, 'S')
                    judge_binary(acc, fxm, xs, 'mask_l', None, m, op, 'S')
                    judge_binary(acc, fxm, xs, 'mask_r', None, m, op, 'S', 'raw', True)
                    judge_binary(acc, fxm, xs, 'mask_r', None, m, op, 'S', 'raw', False, 'wrap')
                    if nw <= sh['ks']:
                        for c in xs:
                            judge_binary(acc, fxm, c, 'mask_r', None, m, op, 'Ss')
                            judge_binary(acc, fxm, c, 'mask_l', None, m, op, 'Ss')
            if nw <= sh['ks'] and nf in (0, nw // 2):
                for a in xs:
                    for b in xs:
                        judge_demorgan(acc, fxm, a, b, 'S')
            if nw >= 3 and nf in (0, nw):
                for grow in (1, 2, 5):
                    judge_history(acc, fxm, grow, 'S')
                for grow in (0, 1):
                    judge_history(acc, fxm, grow, 'S', resign=True)
                judge_2d(acc, fxm, 'S')
    elif sh['part'] == 'W':
        nw = sh['nw']
        for nf in sorted({0, nw // 2, nw}):
            fxm = Fmt(sh['sx'], nw, nf)
            xs = al.code_alphabet(fxm, sh['seed'])
            judge_invert(acc, fxm, xs, 'W')
            for c in (fxm.lo, fxm.hi, -1 if fxm.signed else 1, xs[len(xs) // 2]):
                judge_invert(acc, fxm, c, 'W')
            ycs = {}
            for sy in (True, False):
                yf = Fmt(sy, nw, 0)
                ycs[yf] = sorted({yf.lo, yf.hi, 1, yf.hi // 3, (yf.lo // 3) if sy else yf.hi - 1, al.seed_bits(sh['seed'], 'c13', nw - 1, 1)[0]})
            for yf, ys in ycs.items():
                for op in BIN:
                    for sm in ('outer', 'vec', 'scalar_vec'):
                        judge_arrays(acc, fxm, yf, xs, ys, op, sm, 'W')
                for yc in ys:
                    for op in BIN:
                        judge_binary(acc, fxm, xs, 'fxp', yf, yc, op, 'W')
                        judge_binary(acc, fxm, xs[0], 'fxp', yf, yc, op, 'W')
                        judge_binary(acc, fxm, xs[-1], 'fxp', yf, yc, op, 'W')
            for m in masks(fxm):
                for op in BIN:
                    judge_binary(acc, fxm, xs, 'mask_r', None, m, op, 'W')
                    judge_binary(acc, fxm, xs[-1], 'mask_l', None, m, op, 'W')
            for a in (fxm.lo, fxm.hi, xs[len(xs) // 3]):
                for b in (fxm.hi, -1 if fxm.signed else 1, xs[2 * len(xs) // 3]):
                    judge_demorgan(acc, fxm, a, b, 'W')
    else:
        for nx in range(1, 9):
            for ny in range(1, 9):
                if nx == ny:
                    continue
                for sx in (True, False):
                    for sy in (True, False):
                        for op in BIN:
                            judge_reject(acc, nx, ny, sx, sy, op, 'R')
    return acc


def replay(case):
    reset_class_state()
    acc = Acc()
    if case.get('arrays'):
        judge_arrays(acc, Fmt(*case['fx']), Fmt(*case['fy']), case['xs'], case['ys'], case['op'], case['arrays'], case['part'], case.get('by', 'raw'))
        return acc.violations
    if case.get('history'):
        judge_history(acc, Fmt(*case['fx']), case['grow'], case['part'], case.get('resign', False))
        return [v for v in acc.violations if v['case'].get('via') == case['via'] and v['case'].get('code') == case['code']]
    if case.get('twod'):
        judge_2d(acc, Fmt(*case['fx']), case['part'])
        return [v for v in acc.violations if v['case'].get('layout') == case['layout']]
    if case.get('reject'):
        judge_reject(acc, case['nx'], case['ny'], case['sx'], case['sy'], case['op'], case['part'])
    elif case.get('demorgan'):
        judge_demorgan(acc, Fmt(*case['fx']), case['a'], case['b'], case['part'])
    elif case['op'] == '~':
        judge_invert(acc, Fmt(*case['fx']), case['xs'], case['part'], case.get('ovf', 'saturate'), case.get('by', 'raw'))
    else:
        judge_binary(acc, Fmt(*case['fx']), case['xs'], case['ykind'], Fmt(*case['fy']) if case['fy'] else None, case['yc'], case['op'], case['part'], case.get('by', 'raw'), case.get('inplace', False), case.get('ovf', 'saturate'))
    return acc.violations


def finish(merged, tier, seed):
    for k in ('invert_ok', 'demorgan_ok', 'rejected'):
        if merged['outcomes'].get(k, 0) < 50:
            raise HarnessError('outcome %s under-exercised' % k)
    for k in ('fxp', 'mask_r', 'mask_l'):
        if merged['dims']['ykind'].get(k, 0) < 100:
            raise HarnessError('ykind %s under-exercised' % k)
    return {}
