"""C18 - extended precision: words of 64+ bits store, saturate/wrap, render and combine integers bit-exactly; the extended-precision
indicator is set exactly when n_word >= 64 (E1 + short E2 histories)."""
import numpy as np
from ..runner import Acc, HarnessError
from ..refmodel import Fmt, overflow_code, bin_image, hex_image
from .. import alphabet as al
from ..common import Fxp, codes, flags, fmt_of, reset_class_state
from .c03 import wide_codes

ID = 'C18'
RULE = ('cases = (format with n_word in {62,63} u {64,...,256}, overflow mode, integer code of up to 4x the word length, route {raw constructor, raw '
        'set_val, raw indexed, integer value, binary string raw, hex string raw, object array}) judged bit-exactly with overflow/underflow flags; '
        'then bin(), hex(), ~ & | ^ and the extended_prec indicator on the stored objects; indicator histories store -> reset -> resize -> store. '
        'non-trivial = the code has more than 53 significant bits or is out of range; distinct by construction')
ASSUMPTIONS = ['the inaccuracy flag is not judged at these widths (the property claims overflow and underflow flags)',
               'array carrier = object ndarray or list of Python ints / strings']

WORDS = (62, 63) + al.WIDE
RESIZE_TO = (32, 63, 64, 128)


def store_code(f, ovf, c, route):
    """-> (stored code, (over, under), object)"""
    kw = dict(signed=f.signed, n_word=f.n_word, n_frac=f.n_frac, overflow=ovf)
    if route == 'raw_ctor':
        x = Fxp(c, raw=True, **kw)
        return codes(x)[0], flags(x)[:2], x
    if route == 'raw_set_val':
        x = Fxp(0, **kw)
        x.set_val(c, raw=True)
        return codes(x)[0], flags(x)[:2], x
    if route == 'raw_index':
        x = Fxp([0, 0], **kw)
        x.set_val(c, raw=True, index=1)
        return codes(x)[1], flags(x)[:2], x
    if route == 'bin_raw':
        n = max(f.n_word, c.bit_length() + 1)
        s = '0b' + bin_image(c, f.n_word)           # only used for in-range codes (a string is an n_word-bit image)
        x = Fxp(s, raw=True, **kw)
        return codes(x)[0], flags(x)[:2], x
    if route == 'hex_raw':
        s = '0x' + hex_image(c, f.n_word)
        x = Fxp(s, raw=True, **kw)
        return codes(x)[0], flags(x)[:2], x
    if route == 'value':
        x = Fxp(c, **kw)
        return codes(x)[0], flags(x)[:2], x
    raise ValueError(route)


def judge_code(acc, f, ovf, c, route, part):
    case = {'part': part, 'fmt': list(f), 'overflow': ovf, 'code': c, 'route': route}
    r = c << f.n_frac if route == 'value' else c
    exp = overflow_code(r, f, ovf)
    eo, eu = r > f.hi, r < f.lo
    acc.evaluations += 1
    acc.transitions += 1
    acc.dim('route', route)
    acc.dim('overflow', ovf)
    if eo or eu or abs(r).bit_length() > 53:
        acc.nontrivial += 1
    acc.outcome('out_of_range' if (eo or eu) else 'in_range')
    try:
        got, fl, x = store_code(f, ovf, c, route)
    except Exception as e:
        acc.violation('exception', case, '%s %s code of %d bits by %s raised %r' % (f.dtype, ovf, c.bit_length(), route, e),
                      {'part': part, 'route': route, 'overflow': ovf})
        return None
    if got != exp or fl != (eo, eu):
        acc.violation('store', case, '%s %s: code %d by %s stored as %d flags %s, expected %d %s'
                      % (f.dtype, ovf, c, route, got, fl, exp, (eo, eu)), {'part': part, 'route': route, 'overflow': ovf})
        return None
    ext = bool(x.status.get('extended_prec'))
    if ext != (f.n_word >= 64):
        acc.violation('indicator', case, '%s: extended_prec is %s' % (f.dtype, x.status.get('extended_prec')), {'part': part, 'aspect': 'indicator'})
    if f.n_word >= 64 and getattr(x.val, 'dtype', None) != object:
        acc.violation('storage', case, '%s: storage dtype %s is not Python integers' % (f.dtype, getattr(x.val, 'dtype', None)), {'part': part, 'aspect': 'storage'})
    acc.states.add((f, exp))
    return x


def un2(p, n):
    """n-bit pattern -> signed code"""
    return p - (1 << n) if p >> (n - 1) else p


def judge_object(acc, f, cs, part):
    """rendering and bitwise operators on an object holding the in-range codes cs (array) and on scalars"""
    n = f.n_word
    case = {'part': part, 'fmt': list(f), 'codes': cs}
    acc.evaluations += 6 * len(cs)
    acc.transitions += 8
    acc.nontrivial += len(cs)
    try:
        x = Fxp(np.array(cs, dtype=object), f.signed, n, f.n_frac, raw=True)
        if codes(x) != cs:
            acc.violation('store', case, '%s: object array store changed the codes' % f.dtype, {'part': part, 'route': 'objarr'})
            return
        lst = Fxp(list(cs), f.signed, n, f.n_frac, raw=True)
        if codes(lst) != cs:
            acc.violation('store', case, '%s: list-of-ints store changed the codes: %s' % (f.dtype, [a for a, b in zip(codes(lst), cs) if a != b][:2]),
                          {'part': part, 'route': 'list'})
        sb = Fxp(['0b' + bin_image(c, n) for c in cs], f.signed, n, f.n_frac, raw=True)
        sh = Fxp(['0x' + hex_image(c, n) for c in cs], f.signed, n, f.n_frac, raw=True)
        if codes(sb) != cs or codes(sh) != cs:
            acc.violation('store', case, '%s: list of binary / hex strings (raw) did not restore the codes' % f.dtype, {'part': part, 'route': 'strings'})
        if [str(s) for s in x.bin()] != [bin_image(c, n) for c in cs]:
            acc.violation('render', case, '%s: bin() differs' % f.dtype, {'part': part, 'aspect': 'bin'})
        if [str(s) for s in x.hex()] != ['0x' + hex_image(c, n) for c in cs]:
            acc.violation('render', case, '%s: hex() differs' % f.dtype, {'part': part, 'aspect': 'hex'})
        x.bin(frac_dot=True), x.base_repr(10), x.raw(), x.uraw(), x.get_val(), str(x), x.astype(int) if f.n_frac == 0 else None
        if codes(x) != cs or [int(v) for v in np.asarray(x.raw(), dtype=object).ravel().tolist()] != cs:
            acc.violation('operand_changed', case, '%s: rendering / reading changed the stored codes: %s...' % (f.dtype, codes(x)[:3]), {'part': part, 'aspect': 'purity'})
            return
        mask = (1 << n) - 1

        def un(p):
            return p - (1 << n) if (f.signed and p >> (n - 1)) else p
        m1 = ((1 << n) // 3) | 1
        y = Fxp(un(m1), f.signed, n, 0, raw=True)
        ops = (('~', lambda: ~x, [un((c % (1 << n)) ^ mask) for c in cs]),
               ('&y', lambda: x & y, [un((c % (1 << n)) & m1) for c in cs]),
               ('|y', lambda: x | y, [un((c % (1 << n)) | m1) for c in cs]),
               ('^mask', lambda: x ^ m1, [un((c % (1 << n)) ^ m1) for c in cs]),
               ('mask&', lambda: m1 & x, [un((c % (1 << n)) & m1) for c in cs]))
        # the same with an operand of the OTHER signedness (same bit pattern), on either side
        yo = Fxp(m1 if f.signed else un2(m1, n), not f.signed, n, 0, raw=True)
        m2 = m1 | (1 << (n - 1))                      # top bit set: a negative code when signed, a value >= 2^(n-1) when unsigned
        yt = Fxp(m2 if f.signed else un2(m2, n), not f.signed, n, 0, raw=True)
        ops = ops + (('&y_other_sign', lambda: x & yo, [un((c % (1 << n)) & m1) for c in cs]),
                     ('|y_other_sign', lambda: x | yo, [un((c % (1 << n)) | m1) for c in cs]),
                     ('^y_other_sign', lambda: x ^ yo, [un((c % (1 << n)) ^ m1) for c in cs]),
                     ('&y_other_sign_top', lambda: x & yt, [un((c % (1 << n)) & m2) for c in cs]),
                     ('|y_other_sign_top', lambda: x | yt, [un((c % (1 << n)) | m2) for c in cs]),
                     ('^y_other_sign_top', lambda: x ^ yt, [un((c % (1 << n)) ^ m2) for c in cs]))
        for name, fn, exp in ops:
            z = fn()
            if codes(x) != cs:
                acc.violation('operand_changed', dict(case, op=name), '%s: %s changed the codes of its operand' % (f.dtype, name), {'part': part, 'op': name, 'aspect': 'purity'})
                return
            if codes(z) != exp or fmt_of(z) != f or flags(z)[:2] != (False, False):
                i = [j for j in range(len(cs)) if codes(z)[j] != exp[j]]
                acc.violation('bitwise', dict(case, op=name), '%s: %s on code %d gives %d, expected %d (flags %s)'
                              % (f.dtype, name, cs[i[0]] if i else 0, codes(z)[i[0]] if i else 0, exp[i[0]] if i else 0, flags(z)), {'part': part, 'op': name})
        for c in (cs[0], cs[-1], cs[len(cs) // 2]):
            xs = Fxp(c, f.signed, n, f.n_frac, raw=True)
            if xs.bin() != bin_image(c, n) or xs.hex() != '0x' + hex_image(c, n) or codes(~xs) != [un((c % (1 << n)) ^ mask)] \
                    or codes(xs & y) != [un((c % (1 << n)) & m1)]:
                acc.violation('scalar', dict(case, codes=[c]), '%s: scalar code %d: bin/hex/~/& differ' % (f.dtype, c), {'part': part, 'aspect': 'scalar'})
        acc.outcome('object_ok')
    except Exception as e:
        acc.violation('exception', case, '%s: rendering / bitwise raised %r' % (f.dtype, e), {'part': part, 'aspect': 'object'})
    acc.sample(dict(case, codes=cs[:3]), 1)


def judge_containers(acc, f, ovf, part):
    """Python integers around the 64-bit machine limits inside every kind of container (NumPy would pick uint64 / float64 / object
    for them depending on the mix), stored as codes (raw=True) and as integer values"""
    sets = {'u64_band': [(1 << 63) + 1, (1 << 63), (1 << 64) - 1, (1 << 63) + 7],
            'u64_band+neg': [(1 << 63) + 1, -1, 3, 4],
            'beyond': [(1 << 64), 1, -(1 << 63) - 1, 0],
            'i64_edge': [(1 << 63) - 1, -(1 << 63), (1 << 62) + 1, -3],
            'bounds': [f.hi, f.lo, f.hi - 1, 1]}
    for sname, vals in sets.items():
        conts = {'list': list(vals), 'tuple': tuple(vals), 'nlist': [vals[:2], vals[2:]], 'ntuple': (tuple(vals[:2]), tuple(vals[2:])),
                 'ltuple': [tuple(vals[:2]), tuple(vals[2:])], 'objarr2d': np.array(vals, dtype=object).reshape(2, 2),
                 'nlist3d': [[vals[:2]], [vals[2:]]]}
        for cname, cont in conts.items():
            for mode in ('raw', 'value'):
                rs = [v << f.n_frac if mode == 'value' else v for v in vals]
                if mode == 'value' and max(abs(r).bit_length() for r in rs) > 4 * f.n_word + 8:
                    continue
                exp = [overflow_code(r, f, ovf) for r in rs]
                ef = (any(r > f.hi for r in rs), any(r < f.lo for r in rs))
                case = {'part': part, 'container': cname, 'set': sname, 'fmt': list(f), 'overflow': ovf, 'mode': mode}
                acc.evaluations += 4
                acc.transitions += 1
                acc.nontrivial += 4
                acc.dim('container', cname, 4)
                try:
                    x = Fxp(cont, f.signed, f.n_word, f.n_frac, overflow=ovf, raw=(mode == 'raw'))
                    got, fl = codes(x), flags(x)[:2]
                except Exception as e:
                    acc.violation('exception', case, '%s %s: %s of %s (%s) raised %r' % (f.dtype, ovf, cname, sname, mode, e),
                                  {'part': part, 'route': 'container', 'container': cname, 'mode': mode})
                    continue
                if got != exp or fl != ef:
                    i = [j for j in range(4) if j >= len(got) or got[j] != exp[j]]
                    i = i[0] if i else 0
                    acc.violation('store', case, '%s %s: %s holding %s (%s): element %d stored as %s flags %s, expected %d %s'
                                  % (f.dtype, ovf, cname, sname, mode, vals[i], got[i] if i < len(got) else None, fl, exp[i], ef),
                                  {'part': part, 'route': 'container', 'container': cname, 'mode': mode})
                else:
                    acc.outcome('container_ok')


def judge_history(acc, f, part):
    """store -> reset -> resize(n_word') -> store: indicator == (n_word >= 64) in every state"""
    for nw2 in RESIZE_TO:
        case = {'part': part, 'fmt': list(f), 'resize_to': nw2}
        acc.evaluations += 4
        acc.transitions += 5
        acc.nontrivial += 1
        try:
            x = Fxp(f.hi, f.signed, f.n_word, f.n_frac, raw=True)
            seq = [('stored', f.n_word, x.status['extended_prec'])]
            x.reset()
            seq.append(('reset', f.n_word, x.status['extended_prec']))
            x.resize(n_word=nw2)
            seq.append(('resized', nw2, x.status['extended_prec']))
            x.set_val(1, raw=True)
            seq.append(('stored2', nw2, x.status['extended_prec']))
            x.reset()
            seq.append(('reset2', nw2, x.status['extended_prec']))
        except Exception as e:
            acc.violation('exception', case, '%s -> n_word %d history raised %r' % (f.dtype, nw2, e), {'part': part, 'aspect': 'history'})
            continue
        bad = [(a, n, v) for a, n, v in seq if bool(v) != (n >= 64)]
        if bad:
            acc.violation('indicator', case, '%s history: extended_prec wrong at %s' % (f.dtype, bad), {'part': part, 'aspect': 'indicator_history'})
        if (nw2 >= 64) != (getattr(x.val, 'dtype', None) == object):
            acc.violation('storage', case, '%s resized to %d bits: storage dtype %s' % (f.dtype, nw2, getattr(x.val, 'dtype', None)),
                          {'part': part, 'aspect': 'storage_history'})
        acc.outcome('history_ok')


def judge_derived(acc, f, part):
    """objects that take their format from a wide object (like=, template, indexing, deepcopy, like()): indicator and storage as for direct sizing"""
    from ..common import Fxp as _F
    c = f.hi - 1
    case = {'part': part, 'derived': True, 'fmt': list(f)}
    try:
        w = Fxp(np.array([c, f.lo, 1], dtype=object), f.signed, f.n_word, f.n_frac, raw=True)
        ws = Fxp(c, f.signed, f.n_word, f.n_frac, raw=True)
        ders = {'like=': Fxp(c, like=ws, raw=True), 'like=None': Fxp(None, like=ws), 'template=': Fxp(c, template=ws, raw=True), 'w[0]': w[0], 'w[0:2]': w[0:2],
                'deepcopy': ws.deepcopy(), '~ws': ~ws, 'ws&1': ws & 1}
        if f.n_frac <= 40:
            ders['like()'] = Fxp(0, True, 8, 0).like(ws)
        _F.template = ws
        try:
            ders['Fxp.template'] = Fxp(c, raw=True)
        finally:
            _F.template = None
    except Exception as e:
        acc.violation('exception', case, '%s: deriving objects raised %r' % (f.dtype, e), {'part': part, 'aspect': 'derived'})
        return
    wt = w.deepcopy()
    wt.config.shifting = 'trunc'
    ders.update({'ws|2': ws | 2, 'ws^1': ws ^ 1, 'w.T': w.T, 'w.flatten': w.flatten(), 'w>>1(trunc)': wt >> 1, 'ws.like(ws)': ws.like(ws),
                 'w.deepcopy': w.deepcopy(), '-ws': -ws if f.signed else +ws})
    for name, o in ders.items():
        acc.evaluations += 1
        acc.transitions += 1
        acc.nontrivial += 1
        ok_ind = bool(o.status.get('extended_prec')) == (o.n_word >= 64)
        ok_fmt = (o.n_word, o.signed) == (f.n_word, f.signed)
        ok_sto = (getattr(o.val, 'dtype', None) == object) == (o.n_word >= 64) if isinstance(o.val, np.ndarray) else True
        if not (ok_ind and ok_fmt and ok_sto):
            acc.violation('indicator', dict(case, how=name), '%s: object derived by %s: extended_prec=%r, format %s, storage %s'
                          % (f.dtype, name, o.status.get('extended_prec'), o.dtype, getattr(o.val, 'dtype', type(o.val))), {'part': part, 'aspect': 'derived', 'how': name})
        else:
            acc.outcome('derived_ok')
    # the derived objects are then mutated (an overflowing store, a resize below 64 bits, a reset): the sources keep their own record
    before = (dict(ws.status), dict(w.status), codes(ws), codes(w), ws.n_word, w.n_word)
    for name, o in ders.items():
        if name in ('w[0:2]',):
            continue            # indexing is the documented view
        acc.transitions += 3
        acc.evaluations += 1
        try:
            big = (1 << (o.n_word + 3)) + 1
            o.set_val(big if not isinstance(o.val, np.ndarray) or o.val.ndim == 0 else np.full(o.val.shape, big, dtype=object), raw=True)
            o.resize(n_word=16)
            o.set_val(0.3)
        except Exception as e:
            acc.violation('exception', dict(case, how=name, mutate=True), '%s: mutating the object derived by %s raised %r' % (f.dtype, name, e),
                          {'part': part, 'aspect': 'derived_mutation', 'how': name})
            continue
        after = (dict(ws.status), dict(w.status), codes(ws), codes(w), ws.n_word, w.n_word)
        if after != before:
            acc.violation('indicator', dict(case, how=name, mutate=True), '%s: after an overflowing store / resize(n_word=16) / inexact store on the object derived by %s '
                          'the source reports %s (before: %s)' % (f.dtype, name, after[:2], before[:2]), {'part': part, 'aspect': 'derived_mutation', 'how': name})
            before = after
        else:
            acc.outcome('derived_mutation_ok')


def bounds(tier, seed):
    return {'interleaved': 'two shards visiting signed and unsigned formats of every word length alternately (either signedness first), forward then backward',
            'formats': 'n_word in %s x n_frac {0,1,n/2,n-1,n} x signed/unsigned x {saturate, wrap}' % (WORDS,),
            'codes': 'boundary/walking-bit codes, just outside both bounds, +-k*2^n_word (+-1) for k in {1,2,3,7,2^20}, all-ones words of length n-1,n,'
                     'n+1,2n,4n, powers of two up to 4n, seed extras (3 per word)',
            'routes': 'raw constructor / raw set_val / raw indexed set_val / integer value; binary and hex strings with raw=True (in-range codes); '
                      'object arrays, lists of ints, lists of strings', 'then': 'bin(), hex(), ~ & | ^ (Fxp and int masks, both sides), extended_prec, '
                      'storage dtype; histories store -> reset -> resize(%s) -> store -> reset' % (RESIZE_TO,), 'seed': seed}


def shards(tier, seed):
    out = [{'nw': nw, 'signed': s, 'seed': seed} for nw in WORDS for s in (True, False)]
    # both signednesses (and neighbouring word lengths) interleaved in ONE process, each order: state kept between calls
    out.append({'interleave': list(WORDS), 'first_signed': True, 'seed': seed})
    out.append({'interleave': list(WORDS), 'first_signed': False, 'seed': seed})
    return out


def run_shard(sh):
    reset_class_state()
    acc = Acc()
    if 'interleave' in sh:
        order = []
        for nw in sh['interleave']:
            a, b = Fmt(sh['first_signed'], nw, 0), Fmt(not sh['first_signed'], nw, 0)
            order += [a, b, Fmt(sh['first_signed'], nw, nw // 2), Fmt(not sh['first_signed'], nw, nw // 2), a]
        for f in order + order[::-1]:
            cs = sorted({f.lo - 1, f.lo, -1, 0, 1, f.hi, f.hi + 1, (1 << f.n_word) - 1, -(1 << (f.n_word - 1)), (1 << f.n_word) + 5, f.lo - f.span})
            for ovf in ('wrap', 'saturate'):
                for c in cs:
                    judge_code(acc, f, ovf, c, 'raw_ctor', 'I')
                    judge_code(acc, f, ovf, c, 'raw_set_val', 'I')
            inr = [c for c in cs if f.lo <= c <= f.hi]
            judge_object(acc, f, inr, 'I')
        return acc
    nw = sh['nw']
    for nf in sorted({0, 1, nw // 2, nw - 1, nw}):
        f = Fmt(sh['signed'], nw, nf)
        cs = wide_codes(f, sh['seed'])
        inr = [c for c in cs if f.lo <= c <= f.hi]
        for ovf in ('saturate', 'wrap'):
            for c in cs:
                for route in ('raw_ctor', 'raw_set_val', 'raw_index'):
                    judge_code(acc, f, ovf, c, route, 'W')
                if abs(c).bit_length() + nf <= 4 * nw + 8:
                    judge_code(acc, f, ovf, c, 'value', 'W')
            for c in inr[:: max(1, len(inr) // 25)] + inr[-2:]:
                judge_code(acc, f, ovf, c, 'bin_raw', 'W')
                judge_code(acc, f, ovf, c, 'hex_raw', 'W')
        judge_object(acc, f, inr, 'W')
        for ovf in ('saturate', 'wrap'):
            judge_containers(acc, f, ovf, 'K')
        judge_history(acc, f, 'H')
        judge_derived(acc, f, 'H')
    return acc


def replay(case):
    reset_class_state()
    acc = Acc()
    f = Fmt(*case['fmt'])
    if case.get('derived'):
        judge_derived(acc, f, case['part'])
        return [v for v in acc.violations if v['case'].get('how') == case.get('how')]
    if case.get('container'):
        judge_containers(acc, f, case['overflow'], case['part'])
        return [v for v in acc.violations if all(v['case'].get(k) == case.get(k) for k in ('container', 'set', 'mode'))]
    if 'resize_to' in case:
        judge_history(acc, f, case['part'])
        return [v for v in acc.violations if v['case'].get('resize_to') == case['resize_to']]
    if 'codes' in case:
        judge_object(acc, f, case['codes'], case['part'])
    else:
        judge_code(acc, f, case['overflow'], case['code'], case['route'], case['part'])
    return acc.violations


def finish(merged, tier, seed):
    for k in ('out_of_range', 'in_range', 'object_ok', 'history_ok'):
        if merged['outcomes'].get(k, 0) < 50:
            raise HarnessError('outcome %s under-exercised' % k)
    for r in ('raw_ctor', 'raw_set_val', 'raw_index', 'value', 'bin_raw', 'hex_raw'):
        if merged['dims']['route'].get(r, 0) < 50:
            raise HarnessError('route %s under-exercised' % r)
    return {}
