"""C11 - binary / hex strings are faithful images of the code and parse back to it (E1)."""
import numpy as np
from ..runner import Acc, HarnessError
from ..refmodel import Fmt, bin_image, hex_image, sign_magnitude, with_point
from .. import alphabet as al
from ..common import warm, Fxp, fx, codes, flags, fmt_of, reset_class_state

ID = 'C11'
RULE = ("rendering cases = (format, code, rendering option) compared with Python's own format(code % 2**n, 'b') / '%X' / sign-magnitude numerals; "
        'parsing cases = (format, code, rendered string form, route {constructor, call, set_val, from_bin method, from_bin function}, value or raw '
        'mode, scalar / 1-d / 2-d) must restore the code. non-trivial = negative code, or n_word not a multiple of 4, or n_frac in {0, n_word}; '
        'distinct by construction')
ASSUMPTIONS = ['value-mode parsing only for n_word <= 53 (values are exact doubles); raw mode for every width',
               'strings without a prefix are binary only through from_bin (the constructor reads them as decimal by design)']

BIG_WORDS = tuple(range(9, 71)) + (100, 127, 128, 129, 200, 255, 256)


def render_checks(acc, f, cs, part):
    """all renderings of the codes cs (as scalars for a few, as a 1-d array for all, as 2-d when len allows)"""
    n = f.n_word
    case = {'part': part, 'fmt': list(f), 'codes': cs if len(cs) <= 64 else cs[:64]}

    def bad(kind, msg, **sig):
        acc.violation(kind, dict(case, aspect=kind), '%s: %s' % (f.dtype, msg), dict(part=part, aspect=kind, **sig))

    nt = sum(1 for c in cs if c < 0) + (len(cs) if (n % 4 or f.n_frac in (0, n)) else 0)
    try:
        x = Fxp(np.array(cs, dtype=object if n >= 64 else np.int64), f.signed, n, f.n_frac, raw=True)
        ex_b = [bin_image(c, n) for c in cs]
        ex_h = [hex_image(c, n) for c in cs]
        checks = [
            ('bin', x.bin(), ex_b),
            ('bin_dot', x.bin(frac_dot=True), [with_point(b, f.n_frac) for b in ex_b] if 0 <= f.n_frac <= n else None),
            ('bin_0b', x.bin(prefix='0b'), ['0b' + b for b in ex_b]),
            ('bin_b', x.bin(prefix='b'), ['b' + b for b in ex_b]),
            ('bin_True', x.bin(prefix=True), ['0b' + b for b in ex_b]),
            ('bin_dot_0b', x.bin(frac_dot=True, prefix='0b'), ['0b' + with_point(b, f.n_frac) for b in ex_b] if 0 <= f.n_frac <= n else None),
            ('hex', x.hex(), ['0x' + h for h in ex_h]),
            ('hex_True', x.hex(prefix=True), ['0x' + h for h in ex_h]),
        ]
        for b in (2, 8, 10, 16):
            checks.append(('base_repr_%d' % b, x.base_repr(b), [sign_magnitude(c, b) for c in cs]))
        for name, got, exp in checks:
            if exp is None:
                continue
            acc.evaluations += len(cs)
            acc.transitions += 1
            acc.nontrivial += nt
            acc.dim('render', name, len(cs))
            got = [str(g) for g in got]
            if got != exp:
                i = [j for j in range(len(exp)) if j >= len(got) or got[j] != exp[j]][0]
                bad('render', '%s of code %d is %r, expected %r' % (name, cs[i], got[i] if i < len(got) else None, exp[i]), option=name)
        # scalars
        for c in sorted({cs[0], cs[-1], cs[len(cs) // 2]}):
            xs = Fxp(c, f.signed, n, f.n_frac, raw=True)
            acc.transitions += 4
            acc.evaluations += 4
            got = (xs.bin(), xs.hex(), xs.bin(frac_dot=True) if 0 <= f.n_frac <= n else None, xs.base_repr(10))
            exp = (bin_image(c, n), '0x' + hex_image(c, n), with_point(bin_image(c, n), f.n_frac) if 0 <= f.n_frac <= n else None, sign_magnitude(c, 10))
            if got != exp:
                bad('render', 'scalar code %d renders %r, expected %r' % (c, got, exp), option='scalar')
        # 2-d
        if len(cs) >= 4:
            m = (len(cs) // 2) * 2
            x2 = Fxp(np.array(cs[:m], dtype=object if n >= 64 else np.int64).reshape(2, -1), f.signed, n, f.n_frac, raw=True)
            g = [[str(s) for s in row] for row in x2.bin()]
            h = [[str(s) for s in row] for row in x2.hex()]
            acc.transitions += 2
            acc.evaluations += 2 * m
            e = [ex_b[:m // 2], ex_b[m // 2:m]]
            eh = [['0x' + t for t in ex_h[:m // 2]], ['0x' + t for t in ex_h[m // 2:m]]]
            if g != e or h != eh:
                bad('render', '2-d rendering differs: %r...' % (g[0][:2],), option='2d')
            # objects that are not C-contiguous must render in logical order, in every base
            L = np.array(cs[:m], dtype=object if n >= 64 else np.int64).reshape(2, -1)
            for layout in ('T', 'F', 'rev_rows', 'rev_cols', 'T_of_built_T'):
                if layout == 'T':
                    xl, logical = x2.T, L.T
                elif layout == 'F':
                    xl, logical = Fxp(np.asfortranarray(L), f.signed, n, f.n_frac, raw=True), L
                elif layout == 'rev_rows':
                    xl, logical = x2[::-1], L[::-1]
                elif layout == 'rev_cols':
                    xl, logical = x2[:, ::-1], L[:, ::-1]
                else:
                    xl, logical = Fxp(np.ascontiguousarray(L.T), f.signed, n, f.n_frac, raw=True).T, L
                lc = [[int(c) for c in row] for row in logical.tolist()]
                acc.transitions += 4
                acc.evaluations += 4 * m
                acc.dim('render_layout', layout, m)
                got_l = ([[str(t) for t in row] for row in xl.bin()], [[str(t) for t in row] for row in xl.hex()],
                         [[str(t) for t in row] for row in xl.base_repr(10)], [[str(t) for t in row] for row in xl.bin(frac_dot=True)])
                exp_l = ([[bin_image(c, n) for c in row] for row in lc], [['0x' + hex_image(c, n) for c in row] for row in lc],
                         [[sign_magnitude(c, 10) for c in row] for row in lc],
                         [[with_point(bin_image(c, n), f.n_frac) for c in row] for row in lc] if 0 <= f.n_frac <= n else None)
                for nm, g_, e_ in zip(('bin', 'hex', 'base_repr', 'bin_dot'), got_l, exp_l):
                    if e_ is not None and g_ != e_:
                        bad('render', '%s() of a 2-d object in layout %s is not in logical order: %r vs %r' % (nm, layout, g_[:2], e_[:2]), option='2d_' + layout)
        # configured prefixes and unrelated options: bin() without a prefix argument uses the configured one, an explicit argument wins,
        # hex() and base_repr() never depend on the binary prefix (nor bin() on the hex prefix); and rendering never changes the codes
        for opts in ({'bin_prefix': '0b'}, {'bin_prefix': 'b'}, {'bin_prefix': 'B', 'hex_prefix': '0X'}, {'hex_prefix': 'x'}, {'dtype_notation': 'Q', 'bin_prefix': '0b'},
                     {'array_op_method': 'raw', 'hex_prefix': '0x'}):
            xc = Fxp(np.array(cs, dtype=object if n >= 64 else np.int64), f.signed, n, f.n_frac, raw=True, **opts)
            bp, hp = opts.get('bin_prefix') or '', opts.get('hex_prefix', '0x')
            sc = Fxp(cs[0], f.signed, n, f.n_frac, raw=True, **opts)
            got_c = ([str(t) for t in xc.bin()], [str(t) for t in xc.bin(prefix='0b')], [str(t) for t in xc.hex()], [str(t) for t in xc.hex(prefix='0x')],
                     [str(t) for t in xc.base_repr(2)], sc.bin(), sc.hex())
            exp_c = ([bp + b for b in ex_b], ['0b' + b for b in ex_b], [hp + h for h in ex_h], ['0x' + h for h in ex_h], [sign_magnitude(c, 2) for c in cs],
                     bp + ex_b[0], hp + ex_h[0])
            acc.transitions += 7
            acc.evaluations += 5 * len(cs) + 2
            acc.dim('render_config', '+'.join(sorted(opts)), len(cs))
            for nm, g_, e_ in zip(('bin()', "bin(prefix='0b')", 'hex()', "hex(prefix='0x')", 'base_repr(2)', 'scalar bin()', 'scalar hex()'), got_c, exp_c):
                if g_ != e_:
                    i = [j for j in range(len(e_)) if g_[j] != e_[j]][0] if isinstance(e_, list) and len(g_) == len(e_) else 0
                    bad('render', '%s under configuration %s gives %r, expected %r' % (nm, opts, g_[i] if isinstance(g_, list) else g_, e_[i] if isinstance(e_, list) else e_),
                        option='config')
                    break
            if codes(xc) != list(cs):
                bad('render', 'rendering changed the stored codes under configuration %s' % (opts,), option='purity')
        if codes(x) != list(cs):
            bad('render', 'rendering changed the stored codes: %s...' % codes(x)[:3], option='purity')
        acc.outcome('rendered', len(cs))
    except Exception as e:
        acc.violation('exception', case, '%s rendering raised %r' % (f.dtype, e), {'part': part, 'aspect': 'render'})
    acc.states.add(tuple(f))
    acc.sample(case, 1)


PARSE_ROUTES = ('ctor', 'call', 'set_val', 'from_bin', 'from_bin_fn')


BORN = ('fresh', 'int_resized', 'none_resized', 'like_derived', 'dtype_resized', 'used')


def born(f, shape_like, how):
    """an object of format f (holding zeros) that a string is then fed into: fresh, or reached through a history"""
    kw = dict(signed=f.signed, n_word=f.n_word, n_frac=f.n_frac)
    z = (np.zeros(shape_like, dtype=np.int64) if shape_like else 0)
    if how == 'fresh':
        return Fxp(np.zeros(shape_like) if shape_like else 0, **kw)
    if how == 'int_resized':                    # born from integers without fraction bits, then given its fraction
        x = Fxp(z, f.signed, f.n_word, 0)
        x.resize(n_frac=f.n_frac)
        return x
    if how == 'none_resized':
        x = Fxp(None, f.signed, f.n_word, 0)
        x.resize(n_frac=f.n_frac)
        x.set_val(z, raw=True)
        return x
    if how == 'like_derived':
        t = Fxp(z, not f.signed, f.n_word + 1, 0)
        return Fxp(z, like=t, signed=f.signed, n_word=f.n_word, n_frac=f.n_frac)
    if how == 'dtype_resized':
        x = Fxp(z, not f.signed, f.n_word + 3, 0)
        x.resize(dtype=f.dtype)
        return x
    x = Fxp(np.zeros(shape_like) if shape_like else 0, **kw)       # 'used': read, rendered and operated on before
    warm(x)
    return x


def parse_one(route, f, s, raw, shape_like, how='fresh'):
    """feed string(s) s into an object of format f by the route"""
    kw = dict(signed=f.signed, n_word=f.n_word, n_frac=f.n_frac)
    if route == 'ctor':
        return Fxp(s, raw=raw, **kw)
    if route == 'from_bin_fn':
        return fx.from_bin(s, raw=raw, **kw)
    x = born(f, shape_like, how)
    if route == 'call':
        if raw:
            return None
        x(s)
    elif route == 'set_val':
        x.set_val(s, raw=raw)
    else:
        x.from_bin(s, raw=raw)
    return x


def parse_checks(acc, f, cs, part):
    n = f.n_word
    if n < 2:
        return
    case = {'part': part, 'fmt': list(f), 'codes': cs if len(cs) <= 64 else cs[:64]}
    ex_b = [bin_image(c, n) for c in cs]
    ex_h = [hex_image(c, n) for c in cs]
    value_ok = n <= 53 and 0 <= f.n_frac <= n
    forms = {
        '0b': (['0b' + b for b in ex_b], PARSE_ROUTES, (False, True)),
        'b': (['b' + b for b in ex_b], ('ctor', 'set_val', 'from_bin'), (False, True)),
        'plain': (ex_b, ('from_bin', 'from_bin_fn'), (False, True)),
        '0x': (['0x' + h for h in ex_h], ('ctor', 'call', 'set_val'), (False, True)),
    }
    if 0 <= f.n_frac <= n:
        forms['0b.'] = (['0b' + with_point(b, f.n_frac) for b in ex_b], PARSE_ROUTES, (False,))
        forms['plain.'] = ([with_point(b, f.n_frac) for b in ex_b], ('from_bin', 'from_bin_fn'), (False,))
    nt = sum(1 for c in cs if c < 0) + (len(cs) if (n % 4 or f.n_frac in (0, n)) else 0)
    for fname, (strs, routes, raws) in forms.items():
        for raw in raws:
            if not raw and not value_ok:
                continue
            for route in routes:
                # 1-d: list of str as rendered
                variants = [('list', list(strs), (len(cs),))]
                if len(cs) >= 4 and route in ('ctor', 'set_val', 'from_bin') and fname in ('0b', '0x', 'plain'):
                    m = (len(cs) // 2) * 2
                    rows = [np.array(strs[:m // 2]), np.array(strs[m // 2:m])]
                    variants.append(('2d_rendered', rows, (2, m // 2)))                       # exactly what bin()/hex() return for 2-d
                    variants.append(('2d_ndarray', np.array([strs[:m // 2], strs[m // 2:m]]), (2, m // 2)))
                    variants.append(('2d_lists', [strs[:m // 2], strs[m // 2:m]], (2, m // 2)))
                for vname, payload, shp in variants:
                    exp = cs if vname == 'list' else cs[:shp[0] * shp[1]]
                    acc.evaluations += len(exp)
                    acc.transitions += 1
                    acc.nontrivial += nt
                    acc.dim('parse_route', route, len(exp))
                    acc.dim('parse_form', fname + ('/raw' if raw else '/value'), len(exp))
                    acc.dim('parse_shape', vname, len(exp))
                    try:
                        x = parse_one(route, f, payload, raw, shp)
                        if x is None:
                            continue
                        got = codes(x)
                    except Exception as e:
                        acc.violation('exception', dict(case, form=fname, route=route, raw=raw, shape=vname),
                                      '%s: parsing %s strings (%s) by %s raw=%s raised %r' % (f.dtype, fname, vname, route, raw, e),
                                      {'part': part, 'aspect': 'parse', 'route': route, 'shape': vname, 'form': fname})
                        continue
                    if got != list(exp) or fmt_of(x) != f or tuple(np.shape(x.val)) != tuple(shp):
                        i = [j for j in range(len(exp)) if j >= len(got) or got[j] != exp[j]]
                        i = i[0] if i else 0
                        acc.violation('parse', dict(case, form=fname, route=route, raw=raw, shape=vname),
                                      '%s: %r (code %d) parsed by %s raw=%s (%s) gives code %s format %s shape %s'
                                      % (f.dtype, strs[i], exp[i], route, raw, vname, got[i] if i < len(got) else None, x.dtype, np.shape(x.val)),
                                      {'part': part, 'aspect': 'parse', 'route': route, 'shape': vname, 'form': fname})
                    else:
                        acc.outcome('round_trip', len(exp))
        # scalars
        for c in sorted({cs[0], cs[-1]}):
            i = cs.index(c)
            for raw in raws:
                if not raw and not value_ok:
                    continue
                for route in routes:
                    acc.evaluations += 1
                    acc.transitions += 1
                    for how in (BORN if route in ('call', 'set_val', 'from_bin') else BORN[:1]):
                      try:
                        x = parse_one(route, f, strs[i], raw, (), how)
                        if x is None:
                            continue
                        acc.dim('parse_target', how)
                        if how != 'fresh':
                            xa = parse_one(route, f, [strs[i], strs[0]], raw, (2,), how)
                            if codes(xa) != [c, cs[0]]:
                                acc.violation('parse', dict(case, form=fname, route=route, raw=raw, shape='list2', codes=[c, cs[0]], born=how),
                                              '%s: %r parsed by %s raw=%s into an object %s gives %s' % (f.dtype, [strs[i], strs[0]], route, raw, how, codes(xa)),
                                              {'part': part, 'aspect': 'parse', 'route': route, 'shape': 'list2', 'form': fname, 'born': how})
                        if codes(x) != [c]:
                            acc.violation('parse', dict(case, form=fname, route=route, raw=raw, shape='scalar', codes=[c], born=how),
                                          '%s: scalar %r (code %d) parsed by %s raw=%s into an object %s gives %s' % (f.dtype, strs[i], c, route, raw, how, codes(x)),
                                          {'part': part, 'aspect': 'parse', 'route': route, 'shape': 'scalar', 'form': fname, 'born': how})
                      except Exception as e:
                        acc.violation('exception', dict(case, form=fname, route=route, raw=raw, shape='scalar', codes=[c], born=how),
                                      '%s: scalar %r by %s raw=%s into an object %s raised %r' % (f.dtype, strs[i], route, raw, how, e),
                                      {'part': part, 'aspect': 'parse', 'route': route, 'shape': 'scalar', 'form': fname, 'born': how})


def interleaved_parse(acc, words, part):
    """the same hex / binary digit strings parsed for different formats in one process, forward then backward: a parse result
    must depend on the format it is parsed for, not on which format saw those digits first"""
    fmts = [Fmt(s, nw, nf) for nw in words for s in (True, False) for nf in (0, nw // 2)]
    for f in fmts + fmts[::-1]:
        n = f.n_word
        digs = (n + 3) // 4
        # digit strings shared by every word length with the same number of hex digits
        pats = sorted({(1 << (4 * digs)) - 1, 1 << (4 * digs - 1), (1 << (4 * digs - 1)) - 1, (1 << n) - 1, 1 << (n - 1), 0x5A5A5A5A5A5A5A5A5A & ((1 << (4 * digs)) - 1), 1})
        for p_ in pats:
            if p_ >> n:
                continue                      # not an n-bit image
            c = p_ - (1 << n) if (f.signed and p_ >> (n - 1)) else p_
            hs, bs = '0x' + format(p_, '0%dX' % digs), '0b' + format(p_, '0%db' % n)
            for st in (hs, bs):
                for raw in (True, False):
                    if not raw and (n > 53):
                        continue
                    case = {'part': part, 'fmt': list(f), 'string': st, 'raw': raw, 'code': c}
                    acc.evaluations += 1
                    acc.transitions += 1
                    acc.nontrivial += 1
                    try:
                        x = Fxp(st, f.signed, n, f.n_frac, raw=raw)
                        got = codes(x)
                    except Exception as e:
                        acc.violation('exception', case, '%s: parsing %r raw=%s raised %r' % (f.dtype, st, raw, e), {'part': part, 'aspect': 'parse_interleaved'})
                        continue
                    if got != [c]:
                        acc.violation('parse', case, '%s: %r (code %d) parsed raw=%s gives %s (formats interleaved in one process)' % (f.dtype, st, c, raw, got),
                                      {'part': part, 'aspect': 'parse_interleaved'})
                    else:
                        acc.outcome('round_trip')


def bounds(tier, seed):
    return {'rendering_small': 'every code of every format n_word<=8, n_frac 0..n_word: bin (frac_dot, prefixes None/0b/b/True), hex (default, True), '
                               'base_repr 2/8/10/16; 1-d arrays of all codes, 2-d (incl. transposed view), scalars',
            'rendering_wide': 'boundary/walking-bit/seed codes for n_word in %s x n_frac {0,1,n/2,n-1,n}'
                              % ('9..70 step 1 (quick: a 20-word subset) + {100,127,128,129,200,255,256}'),
            'parsing_interleaved': 'the same digit strings parsed for neighbouring word lengths and both signednesses in one process, forward then backward',
            'parsing': 'n_word>=2: rendered strings in forms 0b / b / plain / 0x / with binary point, by constructor, call, set_val, from_bin method, '
                       'from_bin function; value mode for n_word<=53, raw=True for every width; list-of-str, 2-d exactly as rendered by bin()/hex() '
                       '(list of str arrays), 2-d ndarray of str, nested lists; scalars', 'seed': seed}


def wide_words(tier):
    if tier == 'quick':
        return (9, 12, 15, 16, 17, 24, 31, 32, 33, 48, 52, 53, 54, 63, 64, 65, 70, 100, 127, 128, 129, 200, 255, 256)
    return BIG_WORDS


def shards(tier, seed):
    out = []
    for nw in range(1, 9):
        for s in (True, False):
            out.append({'part': 'S', 'nw': nw, 'signed': s})
    for nw in wide_words(tier):
        out.append({'part': 'W', 'nw': nw, 'seed': seed})
    out.append({'part': 'X', 'nw': 0, 'words': [2, 3, 4, 5, 6, 7, 8, 9, 10, 11, 12, 13, 15, 16, 17, 31, 32, 33]})
    out.append({'part': 'X', 'nw': 0, 'words': [61, 62, 63, 64, 65, 66, 67, 68, 127, 128, 129]})
    return out


def run_shard(sh):
    reset_class_state()
    acc = Acc()
    nw = sh['nw']
    if sh['part'] == 'X':
        interleaved_parse(acc, sh['words'], 'X')
    elif sh['part'] == 'S':
        for nf in range(0, nw + 1):
            f = Fmt(sh['signed'], nw, nf)
            cs = list(range(f.lo, f.hi + 1))
            render_checks(acc, f, cs, 'S')
            parse_checks(acc, f, cs if len(cs) <= 64 else cs[::3] + [cs[-1]], 'S')
    else:
        for s in (True, False):
            for nf in sorted({0, 1, nw // 2, nw - 1, nw}):
                f = Fmt(s, nw, nf)
                cs = al.code_alphabet(f, sh['seed'])
                if len(cs) > 60:
                    cs = sorted(set(cs[:12] + cs[-12:] + cs[:: max(1, len(cs) // 30)]))
                render_checks(acc, f, cs, 'W')
                parse_checks(acc, f, cs, 'W')
    return acc


def replay(case):
    reset_class_state()
    acc = Acc()
    f = Fmt(*case['fmt'])
    if 'string' in case:
        try:
            x = Fxp(case['string'], f.signed, f.n_word, f.n_frac, raw=case['raw'])
            if codes(x) != [case['code']]:
                acc.violation('parse', case, 'parsed %s' % codes(x), {'part': 'X', 'aspect': 'parse_interleaved'})
        except Exception as e:
            acc.violation('exception', case, repr(e), {'part': 'X', 'aspect': 'parse_interleaved'})
        return acc.violations
    if case.get('aspect') == 'render' or 'form' not in case:
        render_checks(acc, f, case['codes'], case['part'])
        return [v for v in acc.violations if v['kind'] in ('render', 'exception')]
    parse_checks(acc, f, case['codes'], case['part'])
    return [v for v in acc.violations if v['case'].get('form') == case['form'] and v['case'].get('route') == case['route']
            and v['case'].get('raw') == case['raw'] and v['case'].get('shape') == case['shape']]


def finish(merged, tier, seed):
    for k in ('rendered', 'round_trip'):
        if merged['outcomes'].get(k, 0) < 1000:
            raise HarnessError('outcome %s under-exercised' % k)
    for r in PARSE_ROUTES:
        if merged['dims']['parse_route'].get(r, 0) < 100:
            raise HarnessError('parse route %s under-exercised' % r)
    return {}
