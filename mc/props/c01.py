"""C01 - storing quantizes exactly: code == OVERFLOW(ROUND(v*2^n_frac)), value read back == code*2^-n_frac,
independent of carrier and route.  E1 product explorer (DESIGN.md section 4, C01)."""
import math
import numpy as np
from ..runner import Acc, HarnessError
from ..refmodel import Fmt, MODES, ROUNDINGS, quantize, dy_float, is_exact_double
from .. import alphabet as al
from ..common import (Fxp, mk, codes, flags, carry, carrier_names, store, ROUTES, HROUTES, reset_class_state)

ID = 'C01'
RULE = ('cases = (format, rounding, overflow, input value, carrier, route) points of the finite products listed in '
        'bounds; every point is executed on the real library and compared with the integer reference quantizer. '
        'non-trivial = the input is not an in-range exact code (rounding or overflow acted); distinct by construction '
        '(alphabets are de-duplicated lists, each product point is visited once)')
ASSUMPTIONS = ['reference quantizer mc/refmodel.py (Python ints only) is correct; it is cross-checked by C05 relations',
               'float inputs are admitted only when they represent the intended dyadic value exactly',
               'NumPy float64 multiplication by a power of two is exact (IEEE-754)']

BIG_E = (53, 61, 62, 63, 64, 65, 100, 511, 1023)


def bounds(tier, seed):
    return {
        'A_small_scope_arrays': 'all formats n_word<=%d, n_frac -8..n_word+8, 10 modes, every quarter-LSB input over 3x range, '
                                'float64 array carrier' % (7 if tier == 'quick' else 10),
        'A2_small_scope_scalars': 'formats n_word<=%d x quarter-LSB sweep x {modes, carriers(%d), routes(4)} with at most %s '
                                  'non-default dimensions' % (2 if tier == 'quick' else 3, len(carrier_names()),
                                                              '2' if tier == 'quick' else '3 (full cross)'),
        'B_full_grid_boundary': 'formats (signed, n_word in %s, n_frac -8..n_word+8) x 10 modes x (B(f) u X(f)) x 7 quarter-LSB '
                                'offsets, core-domain filter, float64 array carrier' % ('quick list' if tier == 'quick' else '1..52'),
        'B2_grid_scalars': 'boundary inputs x all carriers x all routes on a 6x7 format list',
        'C_huge_floats': 'saturate, n_frac>=0: +-{2^e, 2^e(1+2^-52), 2^e-ulp : e in %s} u {+-DBL_MAX} x 28 formats x 5 roundings x '
                         '4 routes x 3 carriers' % (BIG_E,),
        'D_complex': 'both components from the quarter-LSB sweep, n_word<=%d' % (2 if tier == 'quick' else 3),
        'H_interleaved': 'one process visiting 70 formats of mixed signedness / word / n_frac sign forward then backward, all modes, 5 carrier-route pairs',
        'seed_extras': 'seed=%d adds 4 seed-derived bit patterns per word length to B(f)' % seed,
    }


def _nw_list(tier):
    if tier == 'quick':
        return list(range(1, 13)) + [15, 16, 17, 23, 24, 25, 31, 32, 33, 47, 48, 49, 50, 51, 52]
    return list(range(1, 53))


def shards(tier, seed):
    out = []
    kA = 7 if tier == 'quick' else 10
    for nw in range(1, kA + 1):
        for signed in (True, False):
            out.append({'part': 'A', 'signed': signed, 'nw': nw, 'seed': seed})
    kA2 = 2 if tier == 'quick' else 3
    for nw in range(1, kA2 + 1):
        for signed in (True, False):
            for nfs in al.chunks(range(-8, nw + 9), 3 if tier == 'quick' else 2):
                out.append({'part': 'A2', 'signed': signed, 'nw': nw, 'nfs': nfs, 'dev': 2 if tier == 'quick' else 3})
    for nw in _nw_list(tier):
        for signed in (True, False):
            out.append({'part': 'B', 'signed': signed, 'nw': nw, 'seed': seed})
    for nw in (8, 16, 31, 32, 33, 52):
        for signed in (True, False):
            out.append({'part': 'B2', 'signed': signed, 'nw': nw})
    for nw in (1, 2, 8, 31, 32, 33, 52):
        out.append({'part': 'C', 'nw': nw})
    for nw in range(1, (2 if tier == 'quick' else 3) + 1):
        for signed in (True, False):
            out.append({'part': 'D', 'signed': signed, 'nw': nw})
    out.append({'part': 'H'})
    # big shards first for better load balance; order is deterministic
    return out


# ----------------------------------------------------------------------------------------------------
def in_core(d, fmt):
    """|v| < 2^53, |v*2^n_frac| < 2^62, exact double"""
    num, s = d
    if abs(num) >= (1 << (53 + s)):
        return False
    sh = fmt.n_frac - s
    if (abs(num) << sh if sh >= 0 else abs(num) >> -sh) >= (1 << 62):
        return False
    return is_exact_double(d)


def qval(k, fmt):
    """the dyadic value k/4 * 2^-n_frac"""
    s = fmt.n_frac + 2
    if s >= 0:
        return (k, s)
    return (k << -s, 0)


def judge_array(acc, fmt, rounding, overflow, ds, part, check_flags=True):
    """one array store (float64 1-d carrier, constructor) of all values ds; per-element comparison"""
    vals = [dy_float(d) for d in ds]
    case = {'part': part, 'fmt': list(fmt), 'mode': [rounding, overflow], 'vals': [list(d) for d in ds],
            'carrier': 'farr', 'route': 'ctor'}
    exp = [quantize(d, fmt, rounding, overflow) for d in ds]
    acc.evaluations += len(ds)
    acc.transitions += 1
    n_nt = sum(1 for e in exp if e[3] or e[1] or e[2])
    acc.nontrivial += n_nt
    acc.dim('rounding', rounding, len(ds))
    acc.dim('overflow', overflow, len(ds))
    acc.dim('carrier', 'farr', len(ds))
    acc.dim('route', 'ctor', len(ds))
    acc.outcome('over', sum(1 for e in exp if e[1]))
    acc.outcome('under', sum(1 for e in exp if e[2]))
    acc.outcome('inexact_inrange', sum(1 for e in exp if e[3] and not e[1] and not e[2]))
    acc.outcome('exact', len(ds) - n_nt)
    if rounding == 'around':
        acc.outcome('tie', sum(1 for d in ds if _is_tie(d, fmt)))
    try:
        x = mk(np.array(vals, dtype=np.float64), fmt, rounding, overflow)
        got = codes(x)
        gv = np.asarray(x.get_val(), dtype=np.float64).ravel().tolist()
        fl = flags(x)
    except Exception as e:
        acc.violation('exception', case, 'array store raised %r' % (e,), {'part': part})
        return
    expc = [e[0] for e in exp]
    for c in set(expc):
        acc.states.add((fmt, c))
    if got != expc or gv != [fmt.fvalue(c) for c in expc]:
        bad = [i for i in range(len(ds)) if i >= len(got) or got[i] != expc[i] or gv[i] != fmt.fvalue(expc[i])]
        i = bad[0]
        one = dict(case, vals=[list(ds[i])])
        acc.violation('code', one, 'fmt=%s mode=%s/%s v=%s/2^%d: stored code %s (value %r), expected %d (%d of %d elements differ)'
                      % (fmt.dtype, rounding, overflow, ds[i][0], ds[i][1], got[i] if i < len(got) else None,
                         gv[i] if i < len(gv) else None, expc[i], len(bad), len(ds)),
                      {'part': part, 'rounding': rounding, 'overflow': overflow}, full=case)
    if check_flags:
        ef = (any(e[1] for e in exp), any(e[2] for e in exp), any(e[3] for e in exp))
        if fl != ef:
            acc.violation('flags', case if len(ds) < 50 else dict(case, vals=case['vals'][:50], truncated=True),
                          'fmt=%s mode=%s/%s flags %s expected %s' % (fmt.dtype, rounding, overflow, fl, ef), {'part': part}, full=case)
    acc.sample(dict(case, vals=case['vals'][:3]))


FXP_SRC_ROUTES = ('ctor', 'call', 'set_val', 'equal', 'setitem', 'like=', 'like()')


def judge_fxp_array(acc, fmt, rounding, overflow, ds, k, route, part):
    """the values arrive as ONE fixed-point array object with k more fraction bits than the destination (holds every quarter-LSB input,
    exact ties included) and are stored by `route`"""
    sf = Fmt(True, 62 - max(0, fmt.n_frac + k), fmt.n_frac + k)
    ds = [d for d in ds if 0 <= d[1] <= sf.n_frac and abs(d[0] << (sf.n_frac - d[1])) < (1 << 50)] if sf.n_frac >= 0 else []
    if not ds:
        return
    case = {'part': part, 'fmt': list(fmt), 'mode': [rounding, overflow], 'vals': [list(d) for d in ds], 'carrier': 'fxp+%d' % k, 'route': route, 'fxp_array': k}
    exp = [quantize(d, fmt, rounding, overflow) for d in ds]
    acc.evaluations += len(ds)
    acc.transitions += 1
    acc.nontrivial += sum(1 for e in exp if e[1] or e[2] or e[3])
    acc.dim('carrier', 'fxp+%d' % k, len(ds))
    acc.dim('route', route, len(ds))
    if rounding == 'around':
        acc.outcome('tie', sum(1 for d in ds if _is_tie(d, fmt)))
    try:
        src = Fxp(np.array([d[0] << (sf.n_frac - d[1]) for d in ds], dtype=np.int64), sf.signed, sf.n_word, sf.n_frac, raw=True)
        t = mk(np.zeros(len(ds)), fmt, rounding, overflow)
        if route == 'ctor':
            x = Fxp(src, fmt.signed, fmt.n_word, fmt.n_frac, rounding=rounding, overflow=overflow)
        elif route == 'call':
            x = t
            x(src)
        elif route == 'set_val':
            x = t
            x.set_val(src)
        elif route == 'equal':
            x = t.equal(src)
        elif route == 'setitem':
            x = t
            x[:] = src
        elif route == 'like=':
            x = Fxp(src, like=t)
        else:
            x = src.like(t)
        got, fl = codes(x), flags(x)
    except Exception as e:
        acc.violation('exception', case, '%s -> %s %s/%s by %s raised %r' % (sf.dtype, fmt.dtype, rounding, overflow, route, e), {'part': part, 'carrier': 'fxp', 'route': route})
        return
    expc = [e[0] for e in exp]
    if got != expc:
        i = [j for j in range(len(ds)) if got[j] != expc[j]][0]
        acc.violation('code', dict(case, vals=[list(ds[i])]), 'fmt=%s mode=%s/%s v=%s/2^%d carrier=Fxp array %s route=%s: stored code %s, expected %d'
                      % (fmt.dtype, rounding, overflow, ds[i][0], ds[i][1], sf.dtype, route, got[i], expc[i]),
                      {'part': part, 'carrier': 'fxp', 'route': route, 'rounding': rounding}, full=case)
    elif fl != (any(e[1] for e in exp), any(e[2] for e in exp), any(e[3] for e in exp)):
        acc.violation('flags', case, 'fmt=%s mode=%s/%s Fxp array source %s route=%s: flags %s' % (fmt.dtype, rounding, overflow, sf.dtype, route, fl),
                      {'part': part, 'carrier': 'fxp', 'route': route})
    acc.sample(dict(case, vals=case['vals'][:3]))


def judge_layout(acc, fmt, rounding, overflow, ds, part):
    """the same values as a 2-d float64 input in C, Fortran, transposed and strided layouts, by constructor and set_val:
    element (i, j) of the object must be the quantization of element (i, j) of the input"""
    n = (len(ds) // 6) * 6
    if n < 6:
        return
    ds = ds[:n]
    vals = np.array([dy_float(d) for d in ds], dtype=np.float64)
    exp_flat = [quantize(d, fmt, rounding, overflow)[0] for d in ds]
    for layout in ('F', 'T', 'strided'):
        if layout == 'F':
            arr = np.asfortranarray(vals.reshape(n // 3, 3))
            idx = np.arange(n).reshape(n // 3, 3)
        elif layout == 'T':
            arr = vals.reshape(3, n // 3).T
            idx = np.arange(n).reshape(3, n // 3).T
        else:
            big = np.zeros((n // 3, 6))
            big[:, ::2] = vals.reshape(n // 3, 3)
            arr = big[:, ::2]
            idx = np.arange(n).reshape(n // 3, 3)
        exp = [[exp_flat[k] for k in row] for row in idx.tolist()]
        for route in ('ctor', 'set_val', 'setitem'):
            case = {'part': part, 'layout': layout, 'fmt': list(fmt), 'mode': [rounding, overflow], 'vals': [list(d) for d in ds], 'route': route}
            acc.evaluations += n
            acc.transitions += 1
            acc.dim('carrier', 'farr2d_' + layout, n)
            try:
                if route == 'ctor':
                    x = mk(arr, fmt, rounding, overflow)
                else:
                    x = mk(np.zeros(arr.shape), fmt, rounding, overflow)
                    if route == 'set_val':
                        x.set_val(arr)
                    else:
                        x[...] = arr
                got = np.asarray(x.val).tolist()
                got = [[int(c) for c in row] for row in got]
            except Exception as e:
                acc.violation('exception', case, 'fmt=%s %s layout store by %s raised %r' % (fmt.dtype, layout, route, e), {'part': part, 'layout': layout})
                continue
            if got != exp:
                acc.violation('layout', case, 'fmt=%s mode=%s/%s 2-d input in %s layout by %s: codes %s, expected %s'
                              % (fmt.dtype, rounding, overflow, layout, route, str(got)[:120], str(exp)[:120]), {'part': part, 'layout': layout, 'route': route})
            else:
                acc.outcome('layout_ok')


def _is_tie(d, fmt):
    num, s = d
    s2 = s - fmt.n_frac if fmt.n_frac >= 0 else s - fmt.n_frac
    # scaled = num * 2^(n_frac - s); tie iff it is an odd multiple of 1/2
    sh = fmt.n_frac - s
    if sh >= 0:
        return False
    return (num % (1 << -sh)) == (1 << (-sh - 1))


def judge_scalar(acc, fmt, rounding, overflow, d, carrier, route, part):
    """one store of the single value d by (carrier, route); all produced elements must be the expected code"""
    v = carry(d, carrier)
    if v is None:
        return False
    case = {'part': part, 'fmt': list(fmt), 'mode': [rounding, overflow], 'vals': [list(d)], 'carrier': carrier, 'route': route}
    ec, eo, eu, ei, _ = quantize(d, fmt, rounding, overflow)
    acc.evaluations += 1
    acc.transitions += 1
    if eo or eu or ei:
        acc.nontrivial += 1
    acc.dim('rounding', rounding)
    acc.dim('overflow', overflow)
    acc.dim('carrier', carrier)
    acc.dim('route', route)
    try:
        x, idx = store(route, v, fmt, rounding, overflow)
        cs = codes(x if idx is None else x[idx])
        gv = np.asarray((x if idx is None else x[idx]).get_val(), dtype=np.float64).ravel().tolist()
        fl = flags(x)
    except Exception as e:
        acc.violation('exception', case, 'fmt=%s mode=%s/%s v=%s/2^%d carrier=%s route=%s raised %r'
                      % (fmt.dtype, rounding, overflow, d[0], d[1], carrier, route, e),
                      {'part': part, 'carrier': carrier, 'route': route, 'exc': type(e).__name__})
        return True
    acc.states.add((fmt, ec))
    if any(c != ec for c in cs) or any(g != fmt.fvalue(ec) for g in gv) or not cs:
        acc.violation('code', case, 'fmt=%s mode=%s/%s v=%s/2^%d carrier=%s route=%s: stored %s (values %s), expected code %d'
                      % (fmt.dtype, rounding, overflow, d[0], d[1], carrier, route, cs[:4], gv[:4], ec),
                      {'part': part, 'carrier': carrier, 'route': route, 'rounding': rounding, 'overflow': overflow})
    elif fl != ((eo, eu, ei) if not route.endswith('@huge') else (True, True, True)):          # flags raised by the history are sticky
        acc.violation('flags', case, 'fmt=%s mode=%s/%s v=%s/2^%d carrier=%s route=%s: flags %s expected %s'
                      % (fmt.dtype, rounding, overflow, d[0], d[1], carrier, route, fl, (eo, eu, ei)),
                      {'part': part, 'carrier': carrier, 'route': route})
    if isinstance(v, np.ndarray) and v.ndim >= 1 and not route.startswith('setitem'):
        # the stored code is a function of the value at store time: a second object stored from the SAME array, then an element of the
        # first rewritten in place - neither the second object nor the caller's array may change
        try:
            snap = v.tobytes()
            y, _ = store(route, v, fmt, rounding, overflow)
            x.set_val(fmt.hi if ec != fmt.hi else fmt.lo, raw=True, index=(0,) * x.val.ndim)
            acc.transitions += 2
            if any(c != ec for c in codes(y)) or v.tobytes() != snap:
                acc.violation('aliasing', case, 'fmt=%s carrier=%s route=%s: rewriting an element of one object changed %s'
                              % (fmt.dtype, carrier, route, 'the array it was stored from' if v.tobytes() != snap else 'a second object stored from the same array'),
                              {'part': part, 'carrier': carrier, 'route': route, 'aspect': 'aliasing'})
        except Exception as e:
            acc.violation('exception', case, 'fmt=%s carrier=%s route=%s: second store / indexed rewrite raised %r' % (fmt.dtype, carrier, route, e),
                          {'part': part, 'carrier': carrier, 'route': route, 'exc': type(e).__name__, 'aspect': 'aliasing'})
    acc.sample(case, 1)
    return True


DEFAULT_MODE = ('trunc', 'saturate')


def dev_combos(dev):
    """(mode, carrier, route) combinations with at most `dev` non-default dimensions (3 = full cross)"""
    cs = carrier_names()
    out = []
    for m in MODES:
        for c in cs:
            for r in ROUTES + HROUTES:
                if r in HROUTES:
                    # destinations with a history: alone, or (the cheap 'huge' ones) with one more deviation - whatever the bound
                    ok = (m == DEFAULT_MODE and c == 'float') or (r.endswith('@huge') and (m == DEFAULT_MODE or c == 'float'))
                else:
                    ok = (m != DEFAULT_MODE) + (c != 'float') + (r != 'ctor') <= dev
                if ok:
                    out.append((m, c, r))
    return out


def run_shard(sh):
    reset_class_state()
    acc = Acc()
    part = sh['part']
    if part == 'A':
        nw = sh['nw']
        for nf in range(-8, nw + 9):
            fmt = Fmt(sh['signed'], nw, nf)
            ds = [qval(k, fmt) for k in al.quarter_sweep(fmt, 1)]
            for (r, o) in MODES:
                judge_array(acc, fmt, r, o, ds, 'A')
                if nw <= 4 and nf + 12 <= 40:
                    for k, route in ((2, 'ctor'), (2, 'equal'), (5, 'call'), (5, 'like()'), (12, 'set_val'), (12, 'setitem'), (3, 'like=')):
                        judge_fxp_array(acc, fmt, r, o, ds, k, route, 'A')
            if nf in (-1, 0, nw // 2, nw + 1):
                judge_layout(acc, fmt, 'around', 'wrap', ds, 'A')
                judge_layout(acc, fmt, 'floor', 'saturate', ds, 'A')
    elif part == 'A2':
        combos = dev_combos(sh['dev'])
        for nf in sh['nfs']:
            fmt = Fmt(sh['signed'], sh['nw'], nf)
            for k in al.quarter_sweep(fmt, 1):
                d = qval(k, fmt)
                for (m, c, r) in combos:
                    judge_scalar(acc, fmt, m[0], m[1], d, c, r, 'A2')
                # a destination that stored huge values before x array carriers x every mode (beyond the deviation bound on purpose:
                # the library switches its storage path on the magnitude of what it stores)
                for r in ('set_val@huge', 'setitem@huge'):
                    for c in ('arr1.float64', 'list'):
                        for m in MODES:
                            judge_scalar(acc, fmt, m[0], m[1], d, c, r, 'A2')
    elif part == 'B':
        nw = sh['nw']
        for nf in range(-8, nw + 9):
            fmt = Fmt(sh['signed'], nw, nf)
            cs = al.code_alphabet(fmt, sh['seed']) + al.out_of_range_alphabet(fmt)
            ds = []
            for c in cs:
                for off in al.OFFSETS_Q:
                    d = qval(4 * c + off, fmt)
                    if in_core(d, fmt):
                        ds.append(d)
                    else:
                        acc.skipped += 1
            if not ds:
                continue
            for (r, o) in MODES:
                judge_array(acc, fmt, r, o, ds, 'B')
    elif part == 'B2':
        nw = sh['nw']
        combos = dev_combos(2)
        for nf in (-8, -1, 0, 1, nw // 2, nw, nw + 8):
            fmt = Fmt(sh['signed'], nw, nf)
            for c in (fmt.lo, fmt.hi, fmt.lo - 1, fmt.hi + 1, -1 if fmt.signed else 1, (fmt.hi // 3) | 1):
                for off in (0, 2, -1):
                    d = qval(4 * c + off, fmt)
                    if not in_core(d, fmt):
                        acc.skipped += 1
                        continue
                    for (m, cr, r) in combos:
                        judge_scalar(acc, fmt, m[0], m[1], d, cr, r, 'B2')
    elif part == 'C':
        nw = sh['nw']
        mags = []
        for e in BIG_E:
            p = math.ldexp(1.0, e)
            mags += [p, p * (1 + 2.0 ** -52), math.nextafter(p, 0.0)]
        mags.append(1.7976931348623157e308)
        for signed in (True, False):
            for nf in (0, 1, nw, nw + 8):
                fmt = Fmt(signed, nw, nf)
                for rnd in ROUNDINGS:
                    for mag in mags:
                        for sgn in (1, -1):
                            d = _dy_of_float(sgn * mag)
                            for cr in ('float', 'np.float64', 'arr1.float64'):
                                for rt in ROUTES:
                                    judge_scalar(acc, fmt, rnd, 'saturate', d, cr, rt, 'C')
                    # ONE array mixing a huge magnitude with ordinary inputs around the grid (ties included): every element by its own rule
                    small = [qval(k, fmt) for k in (-10, -7, -6, -5, -3, -2, -1, 0, 1, 2, 3, 5, 6, 7, 10) if in_core(qval(k, fmt), fmt)]
                    for mag in (mags[0], mags[len(mags) // 2], mags[-1]):
                        for sgn in (1, -1):
                            judge_array(acc, fmt, rnd, 'saturate', [_dy_of_float(sgn * mag)] + small, 'C')
                            judge_array(acc, fmt, rnd, 'saturate', small[:4] + [_dy_of_float(sgn * mag)] + small[4:], 'C')
    elif part == 'D':
        run_complex(acc, sh)
    elif part == 'H':
        # formats interleaved in one process (signedness, neighbouring words, n_frac signs), forward then backward,
        # all modes, a few carriers and routes: state kept between calls would show as an order-dependent code
        order = []
        for nw in (1, 2, 3, 4, 7, 8, 9, 15, 16, 17, 31, 32, 33, 52):
            order += [Fmt(True, nw, 0), Fmt(False, max(1, nw - 1), 0), Fmt(False, nw, -2), Fmt(True, nw + (1 if nw < 52 else 0), nw // 2), Fmt(False, nw, nw + 3)]
        for fmt in order + order[::-1]:
            cs = [fmt.lo - 1, fmt.lo, -1, 0, 1, fmt.hi, fmt.hi + 1, fmt.hi + fmt.span]
            ds = [d for d in (qval(4 * c + off, fmt) for c in cs for off in (-1, 0, 2)) if in_core(d, fmt)]
            for (r, o) in MODES:
                judge_array(acc, fmt, r, o, ds, 'H')
            for d in ds[:6]:
                for cr, rt in (('int', 'ctor'), ('float', 'setitem'), ('list', 'call'), ('np.int64', 'set_val'), ('decstr', 'ctor')):
                    judge_scalar(acc, fmt, 'around', 'wrap', d, cr, rt, 'H')
    return acc


def _dy_of_float(f):
    n, den = f.as_integer_ratio()
    return (n, den.bit_length() - 1)


def run_complex(acc, sh):
    nw = sh['nw']
    for nf in range(-8, nw + 9):
        fmt = Fmt(sh['signed'], nw, nf)
        ks = list(al.quarter_sweep(fmt, 1))
        ds = [qval(k, fmt) for k in ks]
        fs = [dy_float(d) for d in ds]
        # full pair product for n_word <= 2, otherwise every real against a rotating imaginary
        if nw <= 2:
            pairs = [(i, j) for i in range(len(ds)) for j in range(len(ds))]
        else:
            pairs = [(i, (7 * i + 3) % len(ds)) for i in range(len(ds))] + [((5 * j + 1) % len(ds), j) for j in range(len(ds))]
        arr = np.array([complex(fs[i], fs[j]) for i, j in pairs])
        for (r, o) in MODES:
            case = {'part': 'D', 'fmt': list(fmt), 'mode': [r, o], 'pairs': len(pairs)}
            acc.evaluations += len(pairs)
            acc.transitions += 1
            acc.dim('carrier', 'complex-array', len(pairs))
            q = [quantize(d, fmt, r, o) for d in ds]
            acc.nontrivial += sum(1 for i, j in pairs if q[i][3] or q[i][1] or q[i][2] or q[j][3] or q[j][1] or q[j][2])
            try:
                x = mk(arr, fmt, r, o)
                re = [int(v) for v in np.real(x.val).ravel().tolist()]
                im = [int(v) for v in np.imag(x.val).ravel().tolist()]
                gv = np.asarray(x.get_val()).ravel().tolist()
            except Exception as e:
                acc.violation('exception', case, 'complex array store raised %r' % (e,), {'part': 'D'})
                continue
            for n, (i, j) in enumerate(pairs):
                if re[n] != q[i][0] or im[n] != q[j][0] or gv[n] != complex(fmt.fvalue(q[i][0]), fmt.fvalue(q[j][0])):
                    c1 = {'part': 'D1', 'fmt': list(fmt), 'mode': [r, o], 'vals': [list(ds[i]), list(ds[j])]}
                    acc.violation('code', c1, 'fmt=%s mode=%s/%s complex (%r,%r): stored (%d,%d) expected (%d,%d)'
                                  % (fmt.dtype, r, o, fs[i], fs[j], re[n], im[n], q[i][0], q[j][0]), {'part': 'D'})
                    break
        # scalar complex carrier on a few points
        for (i, j) in pairs[:: max(1, len(pairs) // 6)]:
            for (r, o) in (('around', 'wrap'), ('floor', 'saturate')):
                q1, q2 = quantize(ds[i], fmt, r, o), quantize(ds[j], fmt, r, o)
                acc.evaluations += 1
                acc.transitions += 1
                acc.dim('carrier', 'complex-scalar')
                c1 = {'part': 'D1', 'fmt': list(fmt), 'mode': [r, o], 'vals': [list(ds[i]), list(ds[j])]}
                try:
                    x = mk(complex(fs[i], fs[j]), fmt, r, o)
                    got = (int(np.real(x.val)), int(np.imag(x.val)))
                except Exception as e:
                    acc.violation('exception', c1, 'complex scalar store raised %r' % (e,), {'part': 'D'})
                    continue
                if got != (q1[0], q2[0]):
                    acc.violation('code', c1, 'fmt=%s mode=%s/%s complex scalar: stored %s expected %s'
                                  % (fmt.dtype, r, o, got, (q1[0], q2[0])), {'part': 'D'})


def replay(case):
    reset_class_state()
    acc = Acc()
    if case.get('fxp_array'):
        judge_fxp_array(acc, Fmt(*case['fmt']), case['mode'][0], case['mode'][1], [tuple(d) for d in case['vals']], case['fxp_array'], case['route'], case['part'])
        return acc.violations
    fmt = Fmt(*case['fmt'])
    r, o = case['mode']
    ds = [tuple(d) for d in case.get('vals', [])]
    if 'layout' in case:
        judge_layout(acc, fmt, r, o, ds, case['part'])
        return [v for v in acc.violations if v['case'].get('layout') == case['layout'] and v['case'].get('route') == case['route']]
    if case['part'] == 'D1':
        q1, q2 = quantize(ds[0], fmt, r, o), quantize(ds[1], fmt, r, o)
        try:
            x = mk(np.array([complex(dy_float(ds[0]), dy_float(ds[1]))]), fmt, r, o)
            got = (int(np.real(x.val)[0]), int(np.imag(x.val)[0]))
            if got != (q1[0], q2[0]):
                acc.violation('code', case, 'stored %s expected %s' % (got, (q1[0], q2[0])), {'part': 'D'})
        except Exception as e:
            acc.violation('exception', case, repr(e), {'part': 'D'})
    elif case['carrier'] == 'farr':
        judge_array(acc, fmt, r, o, ds, case['part'])
    else:
        judge_scalar(acc, fmt, r, o, ds[0], case['carrier'], case['route'], case['part'])
    return acc.violations


def finish(merged, tier, seed):
    d = merged['dims']
    for r in ROUNDINGS:
        if d.get('rounding', {}).get(r, 0) < 1000:
            raise HarnessError('rounding %s under-exercised' % r)
    for name in carrier_names():
        if d.get('carrier', {}).get(name, 0) < 10:
            raise HarnessError('carrier %s under-exercised (%s)' % (name, d.get('carrier', {}).get(name)))
    for rt in ROUTES:
        if d.get('route', {}).get(rt, 0) < 100:
            raise HarnessError('route %s under-exercised' % rt)
    for oc in ('over', 'under', 'inexact_inrange', 'exact', 'tie'):
        if merged['outcomes'].get(oc, 0) < 100:
            raise HarnessError('outcome %s under-exercised' % oc)
    return {}
