"""C16 - comparisons and numeric conversions agree with the exact stored value (E1)."""
import math
import operator
from fractions import Fraction
import numpy as np
from ..runner import Acc, HarnessError
from ..refmodel import Fmt
from .. import alphabet as al
from ..common import AGED, build_aged, ENVS, build as common_build, Fxp, codes, flags, fmt_of, reset_class_state, build

ID = 'C16'
RULE = ('comparison cases = (format pair, operator of 6, operand kinds {Fxp/Fxp, Fxp/number, number/Fxp}, code pair) compared with the relation '
        'on exact Fractions; conversion cases = (format, code, conversion of 8) compared with code*2^-n_frac, its floor, code != 0, code, '
        'code mod 2^n_word. non-trivial = values within one LSB of the finer format (incl. equal across formats), or a negative non-integer for '
        'integer conversion; distinct by construction')
ASSUMPTIONS = ['formats with n_word <= 24 so every value is an exact double', 'number operands are Python floats / ints']

CMP = {'<': operator.lt, '<=': operator.le, '==': operator.eq, '!=': operator.ne, '>': operator.gt, '>=': operator.ge}
ADJ_WORDS = (1, 2, 3, 7, 8, 16, 23, 24)


def small_formats(k):
    return [Fmt(s, nw, nf) for s in (True, False) for nw in range(1, k + 1) for nf in range(-1, nw + 2)]


def build(f, cs, shape, by):
    """by='raw': codes written raw (value type unset); by='value': from the exact values, ints when n_frac <= 0 (integer value type)"""
    if by == 'raw':
        return Fxp(np.array(cs, dtype=np.int64).reshape(shape), f.signed, f.n_word, f.n_frac, raw=True)
    if by.startswith('env:'):            # a second feature in force (common.ENVS)
        return common_build(f, list(cs), tuple(len(cs) if d == -1 else d for d in shape), by)
    if by in AGED:                       # the operand reached through a history (common.build_aged)
        return build_aged(f, list(cs), tuple(len(cs) if d == -1 else d for d in shape), by)
    if f.n_frac <= 0:
        arr = np.array([c << -f.n_frac for c in cs], dtype=np.int64).reshape(shape)
    else:
        arr = np.array([f.fvalue(c) for c in cs], dtype=np.float64).reshape(shape)
    x = Fxp(arr, f.signed, f.n_word, f.n_frac)
    assert codes(x) == list(cs)
    return x


def judge_cmp(acc, fxm, fym, xs, ys, kind, part, by='raw'):
    """kind: 'ff' Fxp/Fxp (outer broadcast), 'fn' Fxp/number, 'nf' number/Fxp (scalars per y)"""
    case = {'part': part, 'fx': list(fxm), 'fy': list(fym), 'xs': list(xs), 'ys': list(ys), 'kind': kind, 'by': by}
    acc.dim('built_by', by)
    xv = [fxm.value(a) for a in xs]
    yv = [fym.value(b) for b in ys]
    lsb = min(Fraction(2) ** -fxm.n_frac, Fraction(2) ** -fym.n_frac)
    try:
        x = build(fxm, xs, (-1, 1) if kind == 'ff' else (-1,), by)
        y = build(fym, ys, (1, -1), by)
        for name, op in CMP.items():
            if kind == 'ff':
                acc.transitions += 1
                got = np.asarray(op(x, y)).astype(bool).ravel().tolist()
                exp = [op(a, b) for a in xv for b in yv]
                pairs = [(i, j) for i in range(len(xs)) for j in range(len(ys))]
            else:
                got, exp, pairs = [], [], []
                for j, b in enumerate(yv):
                    num = float(b) if b.denominator != 1 else int(b)
                    acc.transitions += 1
                    r = op(x, num) if kind == 'fn' else op(num, x)
                    got += np.asarray(r).astype(bool).ravel().tolist()
                    exp += [op(a, b) if kind == 'fn' else op(b, a) for a in xv]
                    pairs += [(i, j) for i in range(len(xs))]
            acc.evaluations += len(exp)
            acc.dim('operator', name, len(exp))
            acc.dim('kind', kind, len(exp))
            acc.nontrivial += sum(1 for (i, j) in pairs if abs(xv[i] - yv[j]) <= lsb)
            acc.outcome('true', sum(exp))
            acc.outcome('false', len(exp) - sum(exp))
            if got != exp:
                k = [t for t in range(len(exp)) if t >= len(got) or got[t] != exp[t]][0]
                i, j = pairs[k]
                acc.violation('comparison', dict(case, xs=[xs[i]], ys=[ys[j]], op=name),
                              '%s code %d (=%s) %s %s code %d (=%s) [%s]: got %s, exact relation is %s'
                              % (fxm.dtype, xs[i], xv[i], name, fym.dtype, ys[j], yv[j], kind, got[k] if k < len(got) else None, exp[k]),
                              {'part': part, 'op': name, 'kind': kind}, full=case)
                return
    except Exception as e:
        acc.violation('exception', case, 'comparison %s vs %s [%s] raised %r' % (fxm.dtype, fym.dtype, kind, e), {'part': part, 'kind': kind})
        return
    acc.states.add((fxm, fym))
    acc.sample(dict(case, xs=list(xs)[:3], ys=list(ys)[:3]), 1)


def judge_conv(acc, f, part):
    cs = list(range(f.lo, f.hi + 1))
    case = {'part': part, 'fmt': list(f)}
    vals = [f.value(c) for c in cs]
    fl = [math.floor(v) for v in vals]
    n = f.n_word

    def bad(kind, msg):
        acc.violation(kind, dict(case, conv=kind), '%s: %s' % (f.dtype, msg), {'part': part, 'conv': kind})

    try:
        x = Fxp(np.array(cs, dtype=np.int64), f.signed, f.n_word, f.n_frac, raw=True)
        acc.transitions += 6
        acc.evaluations += 6 * len(cs)
        acc.nontrivial += sum(1 for v in vals if v < 0 and v.denominator != 1)
        g = [Fraction(v) for v in np.asarray(x.get_val(), dtype=float).tolist()]
        if g != vals:
            bad('get_val', 'get_val() = %s..., expected %s...' % (g[:4], vals[:4]))
        g = [Fraction(v) for v in np.asarray(x.astype(float)).tolist()]
        if g != vals:
            bad('astype_float', 'astype(float) = %s...' % g[:4])
        g = [int(v) for v in np.asarray(x.astype(int)).tolist()]
        if g != fl:
            i = [k for k in range(len(cs)) if g[k] != fl[k]][0]
            bad('astype_int', 'astype(int) of code %d (=%s) is %d, floor is %d' % (cs[i], vals[i], g[i], fl[i]))
        g = [int(v) for v in np.asarray(x.raw()).tolist()]
        if g != cs:
            bad('raw', 'raw() = %s...' % g[:4])
        g = [int(v) for v in np.asarray(x.uraw()).tolist()]
        if g != [c % (1 << n) for c in cs]:
            i = [k for k in range(len(cs)) if g[k] != cs[k] % (1 << n)][0]
            bad('uraw', 'uraw() of code %d is %d, expected %d' % (cs[i], g[i], cs[i] % (1 << n)))
        # element reads through the keyword routes index= / item= and .item()
        for i in sorted({0, len(cs) - 1, len(cs) // 2}):
            acc.transitions += 6
            acc.evaluations += 6
            got = (int(x.astype(int, index=i)), int(x.astype(int, item=i)), int(x.get_val(int, item=i)), Fraction(float(x.get_val(item=i))),
                   Fraction(float(x.astype(float, index=i))), Fraction(float(x.item(i))))
            exp = (fl[i], fl[i], fl[i], vals[i], vals[i], vals[i])
            if got != exp:
                bad('element_read', 'code %d (=%s): astype(int,index=)/astype(int,item=)/get_val(int,item=)/get_val(item=)/astype(float,index=)/item() = %s, expected %s'
                    % (cs[i], vals[i], [str(g) for g in got], [str(e) for e in exp]))
                break
        if codes(x) != cs:
            bad('mutated', 'conversions changed the object')
        for c, v, fv in zip(cs, vals, fl):
            xs = Fxp(c, f.signed, f.n_word, f.n_frac, raw=True)
            acc.transitions += 7
            acc.evaluations += 7
            got = (Fraction(float(xs)), int(xs), bool(xs), Fraction(float(xs.get_val())), int(xs.astype(int)), int(xs.raw()), int(xs.uraw()),
                   Fraction(float(xs())))
            exp = (v, fv, c != 0, v, fv, c, c % (1 << n), v)
            if got != exp:
                names = ('float()', 'int()', 'bool()', 'get_val()', 'astype(int)', 'raw()', 'uraw()', 'x()')
                k = [t for t in range(len(exp)) if got[t] != exp[t]][0]
                bad('scalar_' + names[k], 'code %d (=%s): %s = %s, expected %s' % (c, v, names[k], got[k], exp[k]))
                break
            acc.outcome('conv_scalar_ok')
    except Exception as e:
        acc.violation('exception', case, 'conversions on %s raised %r' % (f.dtype, e), {'part': part})
        return
    acc.states.add(tuple(f))
    acc.sample(case, 1)


def judge_history(acc, f, part):
    """compare / convert, then x[i] = v in place (also through a slice view of a parent), then compare / convert again"""
    cs = [c for c in (f.lo, 1, f.hi, 0) if f.lo <= c <= f.hi][:3]
    if len(cs) < 3:
        return
    newc = f.hi if cs[2] != f.hi else f.lo
    for how in ('setitem', 'parent_of_view'):
        case = {'part': part, 'history': True, 'fmt': list(f), 'codes': cs, 'new': newc, 'how': how}
        acc.evaluations += 8
        acc.transitions += 12
        acc.nontrivial += 1
        try:
            if how == 'setitem':
                x = build(f, cs, (3,), 'raw')
                obj = x
            else:
                par = build(f, [0] + cs, (4,), 'raw')
                x = par[1:4]
                obj = par
            thr = float(f.value(cs[1]))
            r0 = [np.asarray(op(x, thr)).tolist() for op in CMP.values()] + [np.asarray(x.astype(int)).tolist(), np.asarray(x.get_val()).tolist()]
            if how == 'setitem':
                x[2] = f.fvalue(newc)
            else:
                par[3] = f.fvalue(newc)
            now = cs[:2] + [newc]
            got = [np.asarray(op(x, thr)).astype(bool).tolist() for op in CMP.values()]
            gi = [int(v) for v in np.asarray(x.astype(int)).tolist()]
            gv = [Fraction(v) for v in np.asarray(x.get_val(), dtype=float).tolist()]
            y = build(f, now, (3,), 'raw')
            ge = np.asarray(x == y).astype(bool).tolist()
        except Exception as e:
            acc.violation('exception', case, '%s compare/convert history (%s) raised %r' % (f.dtype, how, e), {'part': part, 'aspect': 'history'})
            continue
        vals = [f.value(c) for c in now]
        exp = [[op(v, Fraction(thr)) for v in vals] for op in CMP.values()]
        if got != exp or gi != [math.floor(v) for v in vals] or gv != vals or ge != [True, True, True]:
            acc.violation('history', case, '%s codes %s: compare, then element 2 := code %d (%s), compare again: %s, expected %s; astype(int) %s get_val %s'
                          % (f.dtype, cs, newc, how, got, exp, gi, [str(v) for v in gv]), {'part': part, 'aspect': 'history'})
        else:
            acc.outcome('history_ok')


def judge_layout(acc, f, part):
    """conversions and comparisons on 2-d objects in transposed / Fortran / reversed layouts"""
    cs = list(range(f.lo, f.hi + 1))
    while len(cs) < 6:
        cs = cs + cs
    cs = cs[:: max(1, len(cs) // 6)][:6]
    if len(cs) < 6:
        return
    for layout in ('T', 'F', 'rev'):
        case = {'part': part, 'layout': layout, 'fmt': list(f), 'codes': cs}
        acc.evaluations += 4
        acc.transitions += 5
        acc.nontrivial += 1
        try:
            base = np.array(cs, dtype=np.int64)
            if layout == 'T':
                x = Fxp(base.reshape(3, 2), f.signed, f.n_word, f.n_frac, raw=True).T
                lg = base.reshape(3, 2).T
            elif layout == 'F':
                x = Fxp(np.asfortranarray(base.reshape(2, 3)), f.signed, f.n_word, f.n_frac, raw=True)
                lg = base.reshape(2, 3)
            else:
                x = Fxp(base.reshape(2, 3), f.signed, f.n_word, f.n_frac, raw=True)[:, ::-1]
                lg = base.reshape(2, 3)[:, ::-1]
            lgl = [[int(c) for c in row] for row in lg.tolist()]
            gi = np.asarray(x.astype(int)).tolist()
            gv = [[Fraction(v) for v in row] for row in np.asarray(x.get_val(), dtype=float).tolist()]
            gu = np.asarray(x.uraw()).tolist()
            gc = np.asarray(x >= float(f.value(cs[2]))).astype(bool).tolist()
        except Exception as e:
            acc.violation('exception', case, '%s layout %s raised %r' % (f.dtype, layout, e), {'part': part, 'aspect': 'layout'})
            continue
        ev = [[f.value(c) for c in row] for row in lgl]
        if gi != [[math.floor(v) for v in row] for row in ev] or gv != ev or gu != [[c % (1 << f.n_word) for c in row] for row in lgl] \
                or gc != [[v >= f.value(cs[2]) for v in row] for row in ev]:
            acc.violation('layout', case, '%s 2-d object in layout %s: astype(int) %s / get_val / uraw / >= differ from the element-wise values of codes %s'
                          % (f.dtype, layout, gi, lgl), {'part': part, 'aspect': 'layout'})
        else:
            acc.outcome('layout_ok')


def neighbours(fxm, a, fym):
    """codes of fym around the value of code a of fxm"""
    v = fxm.value(a) * Fraction(2) ** fym.n_frac
    out = set()
    for c in (math.floor(v) - 1, math.floor(v), math.ceil(v), math.ceil(v) + 1):
        if fym.lo <= c <= fym.hi:
            out.add(c)
    return sorted(out)


def bounds(tier, seed):
    k = 4 if tier == 'quick' else 5
    return {'comparisons_small': 'all ordered pairs of formats n_word<=%d, n_frac -1..n_word+1 x every code pair (broadcast) x 6 operators, Fxp/Fxp with operands built raw and by value; '
                                 'Fxp/number and number/Fxp for pairs with n_word<=3' % k,
            'comparisons_adjacent': 'format pairs from n_word in %s x n_frac {0, mid, n}: every boundary/walking-bit code of x against the neighbouring '
                                    'codes floor/ceil(+-1) of the y grid, all 3 operand kinds' % (ADJ_WORDS,),
            'comparisons_far': 'format pairs from n_word in %s x n_frac {-8, 0, n+8, 44, 60} (binary points up to 68 bits apart): extremes, 0, +-1, mid codes '
                               'against the neighbouring codes and the extremes of the other grid, all 3 operand kinds' % (FAR_WORDS,),
            'conversions': 'every code of every format n_word<=8, n_frac -1..n_word+1: get_val, astype(float), float(), astype(int), int(), bool(), '
                           'raw(), uraw(), x(); arrays and scalars; compare/convert, in-place write (directly and through the parent of a slice view), compare/convert '
                           'again; 2-d objects in transposed / Fortran / reversed layouts', 'seed': seed}


def shards(tier, seed):
    out = []
    k = 4 if tier == 'quick' else 5
    fs = small_formats(k)
    for i in range(len(fs)):
        out.append({'part': 'S', 'k': k, 'i': i})
    for nw in ADJ_WORDS:
        out.append({'part': 'A', 'nw': nw, 'seed': seed})
    for nw in range(1, 9):
        out.append({'part': 'V', 'nw': nw})
    for nw in FAR_WORDS:
        out.append({'part': 'F', 'nw': nw})
    return out


FAR_WORDS = (8, 24)


def far_formats():
    return [Fmt(s, nw, nf) for s in (True, False) for nw in FAR_WORDS for nf in (-8, 0, nw + 8, 44, 60)]


def adj_formats():
    return [Fmt(s, nw, nf) for s in (True, False) for nw in ADJ_WORDS for nf in sorted({0, nw // 2, nw})]


def run_shard(sh):
    reset_class_state()
    acc = Acc()
    if sh['part'] == 'S':
        fs = small_formats(sh['k'])
        fxm = fs[sh['i']]
        xs = list(range(fxm.lo, fxm.hi + 1))
        for fym in fs:
            ys = list(range(fym.lo, fym.hi + 1))
            judge_cmp(acc, fxm, fym, xs, ys, 'ff', 'S')
            judge_cmp(acc, fxm, fym, xs, ys, 'ff', 'S', 'value')
            for env in (ENVS if max(fxm.n_word, fym.n_word) <= 2 else (ENVS[(sh['i'] + 5 * fs.index(fym)) % len(ENVS)],)):
                judge_cmp(acc, fxm, fym, xs, ys, 'ff', 'S', 'env:' + env)
                if fxm.n_word <= 3 and fym.n_word <= 3:
                    judge_cmp(acc, fxm, fym, xs, ys, 'fn', 'S', 'env:' + env)
                    judge_cmp(acc, fxm, fym, xs, ys, 'nf', 'S', 'env:' + env)
            for how in (AGED if max(fxm.n_word, fym.n_word) <= 2 else (AGED[(sh['i'] + fs.index(fym)) % len(AGED)],)):
                judge_cmp(acc, fxm, fym, xs, ys, 'ff', 'S', how)
                if fxm.n_word <= 3 and fym.n_word <= 3:
                    judge_cmp(acc, fxm, fym, xs, ys, 'fn', 'S', how)
            if fxm.n_word <= 3 and fym.n_word <= 3:
                judge_cmp(acc, fxm, fym, xs, ys, 'fn', 'S')
                judge_cmp(acc, fxm, fym, xs, ys, 'nf', 'S')
    elif sh['part'] == 'A':
        for fxm in [f for f in adj_formats() if f.n_word == sh['nw']]:
            xs = al.code_alphabet(fxm, sh['seed'])
            if len(xs) > 40:
                xs = xs[:: len(xs) // 40 + 1] + [xs[-1]]
            for fym in adj_formats():
                for a in xs:
                    ys = neighbours(fxm, a, fym)
                    if not ys:
                        continue
                    for kind in ('ff', 'fn', 'nf'):
                        judge_cmp(acc, fxm, fym, [a], ys, kind, 'A')
                    judge_cmp(acc, fxm, fym, [a], ys, 'ff', 'A', 'value')
    elif sh['part'] == 'F':
        # formats whose binary points are far apart (aligning one operand to the other shifts it by up to 68 bits)
        ffs = far_formats()
        for fxm in [f for f in ffs if f.n_word == sh['nw']]:
            xs = sorted({fxm.lo, fxm.lo + 1, 0, 1, fxm.hi // 2 + 1, fxm.hi - 1, fxm.hi} | ({-1, fxm.lo // 2} if fxm.signed else set()))
            for fym in ffs:
                for a in xs:
                    ys = sorted(set(neighbours(fxm, a, fym)) | {fym.lo, fym.hi, 0, 1, fym.hi // 2 + 1} | ({-1} if fym.signed else set()))
                    for kind in ('ff', 'fn', 'nf'):
                        judge_cmp(acc, fxm, fym, [a], ys, kind, 'F')
                ys = sorted({fym.lo, fym.hi, 0, 1, fym.hi // 2 + 1} | ({-1, fym.lo // 2} if fym.signed else set()))
                judge_cmp(acc, fxm, fym, xs, ys, 'ff', 'F')
                judge_cmp(acc, fxm, fym, xs, ys, 'ff', 'F', 'value')
    else:
        nw = sh['nw']
        for s in (True, False):
            for nf in range(-1, nw + 2):
                judge_conv(acc, Fmt(s, nw, nf), 'V')
                if nw >= 2:
                    judge_history(acc, Fmt(s, nw, nf), 'V')
                    judge_layout(acc, Fmt(s, nw, nf), 'V')
    return acc


def replay(case):
    reset_class_state()
    acc = Acc()
    if case.get('history'):
        judge_history(acc, Fmt(*case['fmt']), case['part'])
        return [v for v in acc.violations if v['case'].get('how') == case['how']]
    if 'layout' in case:
        judge_layout(acc, Fmt(*case['fmt']), case['part'])
        return [v for v in acc.violations if v['case'].get('layout') == case['layout']]
    if 'kind' in case:
        judge_cmp(acc, Fmt(*case['fx']), Fmt(*case['fy']), case['xs'], case['ys'], case['kind'], case['part'], case.get('by', 'raw'))
    else:
        judge_conv(acc, Fmt(*case['fmt']), case['part'])
        if 'conv' in case:
            return [v for v in acc.violations if v['kind'] == case['conv']]
    return acc.violations


def finish(merged, tier, seed):
    for k in ('true', 'false', 'conv_scalar_ok'):
        if merged['outcomes'].get(k, 0) < 100:
            raise HarnessError('outcome %s under-exercised' % k)
    for k in ('ff', 'fn', 'nf'):
        if merged['dims']['kind'].get(k, 0) < 100:
            raise HarnessError('kind %s under-exercised' % k)
    return {}
