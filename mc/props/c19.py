"""C19 - no silent wrap at the 64-bit machine boundary in arithmetic or in storing (E1)."""
import numpy as np
from ..runner import Acc, HarnessError
from ..refmodel import Fmt, MODES, quantize, add_fmt, mul_fmt
from .. import alphabet as al
from ..common import Fxp, fx, codes, flags, fmt_of, reset_class_state, ROUTES
from .c07 import expected, apply

ID = 'C19'
RULE = ('arithmetic cases = (operand word pair, n_frac pair, signedness mix, op in {+,-,*}, code pair from an extreme/near-extreme/2^53+-1/pattern/'
        'seed alphabet, scalar or array operands [, second-level operand]); the result must have the growth format and the exact integer code, no '
        'overflow/underflow flag. storing cases = (format, modes, route, Python int +-(2^e+d) or all-ones word): code and flags as C01. An exception '
        'inside the domain is a violation. non-trivial = the exact result or the scaled input needs >= 54 bits; distinct by construction')
ASSUMPTIONS = ['exact integer arithmetic on codes with the growth rules of C07', 'the inaccuracy flag is judged only for stores (C01), not for wide results']

OPS = ('+', '-', '*')
QUICK_WORDS = (2, 8, 26, 27, 31, 32, 33, 52, 53, 54, 62, 63, 64, 65, 70)


def code_letters(f, seed):
    n = f.n_word
    s = {f.lo, f.lo + 1, f.hi - 1, f.hi, 0, 1}
    if f.signed:
        s.add(-1)
    for v in ((1 << 53) - 1, (1 << 53) + 1, -((1 << 53) + 1)):
        if f.lo <= v <= f.hi:
            s.add(v)
    mask = (1 << n) - 1
    for p in (0xAAAAAAAAAAAAAAAAAAAAAAAAAAAAAAAAAAAA & mask, 0x5555555555555555555555555555555555555 & mask, mask >> 1, al.seed_bits(seed, 'c19', n, 1)[0]):
        c = p - (1 << n) if (f.signed and p >> (n - 1)) else p
        if f.lo <= c <= f.hi:
            s.add(c)
    return sorted(s)


def mk(f, cs, shape, **kw):
    if shape == 'scalar':
        return Fxp(cs[0], f.signed, f.n_word, f.n_frac, raw=True, **kw)
    arr = np.array(cs, dtype=object if f.n_word >= 64 else (np.int64 if f.signed else np.uint64))
    return Fxp(arr.reshape(shape), f.signed, f.n_word, f.n_frac, raw=True, **kw)


def result_of(op, fa, fb, a, b):
    fz = mul_fmt(fa, fb) if op == '*' else add_fmt(fa, fb)
    r = a * b if op == '*' else expected(op, fa, fb, a, b)[1]
    return fz, r


WIDE_ENVS = ({'n_word_max': 128}, {'n_word_max': 256, 'array_output_type': 'array'}, {'bin_prefix': '0b', 'n_word_max': 65}, {'rounding': 'around', 'max_error': 0.5}, {'n_word_max': 32},
             {'op_input_size': 'best', 'const_op_sizing': 'same'}, {'shifting': 'trunc', 'dtype_notation': 'Q'}, {'array_op_method': 'raw'})


def judge(acc, fa, fb, xs, ys, op, shape_mode, part, hist=False, env=None):
    """shape_mode 'self': the same object on both sides.  hist (with 'vec'): the operands first hold other codes and are operated on,
    then every element is written in place (the buffer object stays), then the judged operation runs"""
    case = {'part': part, 'fx': list(fa), 'fy': list(fb), 'xs': list(xs), 'ys': list(ys), 'op': op, 'shape': shape_mode, 'hist': hist, 'env': env}
    if shape_mode == 'outer':
        pairs = [(a, b) for a in xs for b in ys]
        sx, sy = (-1, 1), (1, -1)
    elif shape_mode == 'vec':
        m = min(len(xs), len(ys))
        xs, ys = xs[:m], ys[:m]
        pairs = list(zip(xs, ys))
        sx = sy = (-1,)
    elif shape_mode == 'self':
        pairs = [(a, a) for a in xs]
        sx = sy = (-1,)
    else:
        pairs = [(xs[0], ys[0])]
        sx = sy = 'scalar'
    fz = mul_fmt(fa, fb) if op == '*' else add_fmt(fa, fb)
    exps = []
    eu = False
    for a, b in pairs:
        _, r = result_of(op, fa, fb, a, b)
        if op == '-' and not fz.signed and r < 0:
            r, eu = 0, True
        exps.append(r)
    acc.evaluations += len(pairs)
    acc.transitions += 1
    acc.dim('op', op, len(pairs))
    acc.dim('shape', shape_mode, len(pairs))
    acc.dim('regime', 'result>=64' if fz.n_word >= 64 else ('result>=54' if fz.n_word >= 54 else 'result<54'), len(pairs))
    acc.nontrivial += sum(1 for r in exps if abs(r).bit_length() >= 54)
    try:
        if hist:
            x = mk(fa, [fa.hi if c != fa.hi else fa.lo for c in xs], sx)
            y = mk(fb, [fb.hi if c != fb.hi else fb.lo for c in ys], sy)
            for op0 in OPS:
                apply(op0, 'operator', x, y)
                acc.transitions += 1
            for i, c in enumerate(xs):
                x.set_val(c, raw=True, index=i)
            for i, c in enumerate(ys):
                y.set_val(c, raw=True, index=i)
            acc.dim('history', 'operate-write-operate', len(pairs))
        elif shape_mode == 'self':
            x = y = mk(fa, xs, sx)
            acc.dim('history', 'same object on both sides', len(pairs))
        elif env is not None:
            # non-default configuration options on the operands: none of them may change exact arithmetic with optimal sizing
            x, y = mk(fa, xs, sx, **WIDE_ENVS[env]), mk(fb, ys, sy, **WIDE_ENVS[(env + 3) % len(WIDE_ENVS)])
            acc.dim('environment', str(sorted(WIDE_ENVS[env])), len(pairs))
        else:
            x, y = mk(fa, xs, sx), mk(fb, ys, sy)
        z = apply(op, 'operator', x, y)
        got = codes(z)
        gf = fmt_of(z)
        fl = flags(z)
    except Exception as e:
        acc.violation('exception', case, '%s %s %s (%s) raised %r' % (fa.dtype, op, fb.dtype, shape_mode, e),
                      {'part': part, 'op': op, 'exc': type(e).__name__})
        return None
    if gf != fz:
        acc.violation('format', case, '%s %s %s: result format %s, growth rule says %s' % (fa.dtype, op, fb.dtype, gf.dtype, fz.dtype), {'part': part, 'op': op})
        return None
    if got != exps:
        i = [j for j in range(len(exps)) if j >= len(got) or got[j] != exps[j]][0]
        acc.violation('value', dict(case, xs=[pairs[i][0]], ys=[pairs[i][1]], shape='scalar'),
                      '%s code %d %s %s code %d (%s): result code %s, exact result %d (needs %d bits)'
                      % (fa.dtype, pairs[i][0], op, fb.dtype, pairs[i][1], shape_mode, got[i] if i < len(got) else None, exps[i], exps[i].bit_length()),
                      {'part': part, 'op': op, 'shape': shape_mode}, full=case)
        return None
    if fl[:2] != (False, eu):
        acc.violation('flags', case, '%s %s %s: overflow/underflow flags %s' % (fa.dtype, op, fb.dtype, fl[:2]), {'part': part, 'op': op})
    acc.states.add((fz, exps[0]))
    acc.sample(dict(case, xs=list(xs)[:2], ys=list(ys)[:2]), 1)
    return z, fz, exps


def judge_store(acc, f, r, o, v, route, part):
    case = {'part': part, 'fmt': list(f), 'mode': [r, o], 'int': v, 'route': route}
    ec, eo, eu, ei, _ = quantize((v, 0), f, r, o)
    acc.evaluations += 1
    acc.transitions += 1
    acc.dim('store_route', route)
    if (abs(v) << max(f.n_frac, 0)).bit_length() >= 54:
        acc.nontrivial += 1
    acc.outcome('store_overflowing' if (eo or eu) else 'store_in_range')
    try:
        kw = dict(signed=f.signed, n_word=f.n_word, n_frac=f.n_frac, rounding=r, overflow=o)
        if route == 'ctor':
            x = Fxp(v, **kw)
            c = codes(x)[0]
        elif route == 'call':
            x = Fxp(0, **kw)
            x(v)
            c = codes(x)[0]
        elif route == 'set_val':
            x = Fxp(0, **kw)
            x.set_val(v)
            c = codes(x)[0]
        else:
            x = Fxp([0, 0], **kw)
            x[1] = v
            c = codes(x)[1]
        fl = flags(x)
    except Exception as e:
        acc.violation('exception', case, '%s %s/%s: storing an int of %d bits by %s raised %r' % (f.dtype, r, o, v.bit_length(), route, e),
                      {'part': part, 'route': route, 'exc': type(e).__name__})
        return
    if c != ec or fl != (eo, eu, ei):
        acc.violation('store', case, '%s %s/%s: int %s%d bits by %s stored as %d flags %s, expected %d %s'
                      % (f.dtype, r, o, '-' if v < 0 else '', v.bit_length(), route, c, fl, ec, (eo, eu, ei)), {'part': part, 'route': route})
    acc.sample(case, 1)


def store_ints():
    out = []
    for e in list(range(0, 71)) + [100, 128, 200, 256, 500, 1000]:
        for dl in (-1, 0, 1):
            v = (1 << e) + dl
            out += [v, -v]
    for ln in (53, 54, 62, 63, 64, 65, 127, 128, 129):
        out += [(1 << ln) - 1, -((1 << ln) - 1)]
    return sorted(set(out))


def nfracs(nw, tier):
    return sorted({0, nw // 2, nw}) if tier == 'quick' else sorted({0, 1, nw // 2, nw - 1, nw})


def bounds(tier, seed):
    return {'arithmetic': 'operand words %s (all ordered pairs) x n_frac %s x 4 signedness mixes x code letters {lo, lo+1, hi-1, hi, 0, +-1, 2^53+-1, '
                          'alternating / all-ones patterns, seed letter}^2 (broadcast) x {+,-,*}; scalar operands at the extremes; equal-length vector '
                          'operands; second level (x op y) op z up to 256 bits'
                          % (QUICK_WORDS if tier == 'quick' else '2..70', '{0,n/2,n}' if tier == 'quick' else '{0,1,n/2,n-1,n}'),
            'storing': 'Python ints +-(2^e+d), e in 0..70 + {100,128,200,256,500,1000}, d in {-1,0,1}, all-ones words, into n_word in {1,2,8,16,31,32,33,52} x '
                       'n_frac {0,1,n,n+3} x %s x 4 routes' % ('4 mode pairs (quick)' if tier == 'quick' else '10 modes'), 'seed': seed}


def shards(tier, seed):
    out = []
    words = QUICK_WORDS if tier == 'quick' else tuple(range(2, 71))
    for wa in words:
        out.append({'part': 'A', 'wa': wa, 'words': list(words), 'tier': tier, 'seed': seed})
    for nw in (1, 2, 8, 16, 31, 32, 33, 52):
        for s in (True, False):
            out.append({'part': 'S', 'nw': nw, 'signed': s, 'tier': tier})
    return out


def run_shard(sh):
    reset_class_state()
    acc = Acc()
    if sh['part'] == 'A':
        wa, tier, seed = sh['wa'], sh['tier'], sh['seed']
        for sa in (True, False):
            for nfa in nfracs(wa, tier):
                fa = Fmt(sa, wa, nfa)
                xs = code_letters(fa, seed)
                for wb in sh['words']:
                    for sb in (True, False):
                        for nfb in nfracs(wb, tier):
                            fb = Fmt(sb, wb, nfb)
                            ys = code_letters(fb, seed)
                            for op in OPS:
                                res = judge(acc, fa, fb, xs, ys, op, 'outer', 'A')
                                judge(acc, fa, fb, [fa.lo], [fb.hi], op, 'scalar', 'A')
                                judge(acc, fa, fb, [fa.hi], [fb.lo if sb else fb.hi], op, 'scalar', 'A')
                                if nfa == 0 and nfb in (0, wb):
                                    judge(acc, fa, fb, xs, ys, op, 'vec', 'A')
                                    judge(acc, fa, fb, xs, ys, op, 'vec', 'A', True)
                                if fa == fb:
                                    judge(acc, fa, fa, xs, xs, op, 'self', 'A')
                                if nfb in (0, wb) and nfa in (0, wa):
                                    judge(acc, fa, fb, xs, ys, op, 'outer', 'A', False, (wa + wb + nfa + nfb + int(sa) + 2 * int(sb) + OPS.index(op)) % len(WIDE_ENVS))
                                # second level: (x op y) op2 w, staying below 256 bits
                                if res is not None and nfa == 0 and nfb == 0 and wa in (31, 32, 53, 63, 64, 70) and wb in (32, 33, 62, 64):
                                    z, fz, exps = res
                                    fw = Fmt(True, 63, 0)
                                    for op2 in OPS:
                                        f2 = mul_fmt(fz, fw) if op2 == '*' else add_fmt(fz, fw)
                                        if f2.n_word > 256:
                                            continue
                                        case = {'part': 'A2', 'fx': list(fa), 'fy': list(fb), 'xs': list(xs), 'ys': list(ys), 'op': op, 'op2': op2}
                                        acc.evaluations += len(exps)
                                        acc.transitions += 1
                                        acc.nontrivial += len(exps)
                                        try:
                                            w = Fxp(fw.lo + 1, True, 63, 0, raw=True)
                                            t = apply(op2, 'operator', z, w)
                                            got = codes(t)
                                            e2 = [result_of(op2, fz, fw, r, fw.lo + 1)[1] for r in exps]
                                            if fmt_of(t) != f2 or got != e2 or flags(t)[:2] != (False, False):
                                                i = [j for j in range(len(e2)) if got[j] != e2[j]]
                                                acc.violation('value2', case, '(%s %s %s) %s s63/0: result %s code %s, exact %s'
                                                              % (fa.dtype, op, fb.dtype, op2, t.dtype, got[i[0]] if i else None, e2[i[0]] if i else None),
                                                              {'part': 'A2', 'op': op2})
                                            else:
                                                acc.outcome('second_level_ok')
                                        except Exception as e:
                                            acc.violation('exception', case, '(%s %s %s) %s s63/0 raised %r' % (fa.dtype, op, fb.dtype, op2, e),
                                                          {'part': 'A2', 'op': op2, 'exc': type(e).__name__})
    else:
        nw = sh['nw']
        modes = MODES if sh['tier'] != 'quick' else (('trunc', 'saturate'), ('around', 'wrap'), ('ceil', 'saturate'), ('floor', 'wrap'))
        for nf in (0, 1, nw, nw + 3):
            f = Fmt(sh['signed'], nw, nf)
            for v in store_ints():
                for (r, o) in modes:
                    for route in ROUTES:
                        judge_store(acc, f, r, o, v, route, 'S')
    return acc


def replay(case):
    reset_class_state()
    acc = Acc()
    if case['part'] == 'S':
        judge_store(acc, Fmt(*case['fmt']), case['mode'][0], case['mode'][1], case['int'], case['route'], 'S')
    elif case['part'] == 'A2':
        fa, fb = Fmt(*case['fx']), Fmt(*case['fy'])
        res = judge(acc, fa, fb, case['xs'], case['ys'], case['op'], 'outer', 'A')
        if res is not None:
            z, fz, exps = res
            fw = Fmt(True, 63, 0)
            op2 = case['op2']
            try:
                t = apply(op2, 'operator', z, Fxp(fw.lo + 1, True, 63, 0, raw=True))
                e2 = [result_of(op2, fz, fw, r, fw.lo + 1)[1] for r in exps]
                if codes(t) != e2:
                    acc.violation('value2', case, 'second level differs', {'part': 'A2', 'op': op2})
            except Exception as e:
                acc.violation('exception', case, repr(e), {'part': 'A2', 'op': op2, 'exc': type(e).__name__})
    else:
        judge(acc, Fmt(*case['fx']), Fmt(*case['fy']), case['xs'], case['ys'], case['op'], case['shape'], case['part'], case.get('hist', False), case.get('env'))
    return acc.violations


def finish(merged, tier, seed):
    for k in ('store_overflowing', 'store_in_range', 'second_level_ok'):
        if merged['outcomes'].get(k, 0) < 50:
            raise HarnessError('outcome %s under-exercised' % k)
    for k in ('result>=64', 'result>=54', 'result<54'):
        if merged['dims']['regime'].get(k, 0) < 100:
            raise HarnessError('regime %s under-exercised' % k)
    return {}
