"""C15 - NumPy reductions and linear algebra on fixed-point arrays are exact and (accumulating ones) never overflow (E1)."""
import itertools
from fractions import Fraction
import numpy as np
from ..runner import Acc, HarnessError
from ..refmodel import Fmt
from .. import alphabet as al
from ..common import Fxp, fx, codes, flags, fmt_of, reset_class_state, build, AGED, ENVS

ID = 'C15'
RULE = ('cases = (shape, format, fill pattern, function, call route {numpy function, method}, axis); the result must be an Fxp whose exact values '
        '(code*2^-n_frac as Fractions) and shape equal the same reduction evaluated on Fractions, with no overflow/underflow flag for sum, cumsum, '
        'trace, prod, cumprod, dot. non-trivial = every element at an extreme, or odd length, or mixed signedness in dot; distinct by construction')
ASSUMPTIONS = ['oracle: the same NumPy reduction applied to an object array of Fractions (NumPy only orchestrates; all arithmetic is Fraction)',
               'prod / cumprod only while the optimal result word is <= 53 bits', 'x @ y is not claimed (functions and methods are)']

SHAPES = ((1,), (2,), (3,), (5,), (7,), (8,), (1, 3), (3, 1), (2, 2), (2, 3), (3, 2), (3, 3))
WORDS = (1, 2, 3, 4, 8, 12)
ACCUM = ('sum', 'cumsum', 'trace', 'prod', 'cumprod', 'dot')


def formats():
    out = []
    for s in (True, False):
        for nw in WORDS:
            for nf in sorted({0, nw // 2, nw}):
                out.append(Fmt(s, nw, nf))
    return out


def fills(f, size, full, seed):
    """code vectors of length `size`"""
    lo, hi = f.lo, f.hi
    out = []
    if full or size <= 4:
        out += [list(t) for t in itertools.product((lo, hi), repeat=size)]
    else:
        out += [[lo] * size, [hi] * size, [lo if i % 2 else hi for i in range(size)], [hi if i % 2 else lo for i in range(size)]]
        for i in range(size):
            out.append([hi] * i + [lo] + [hi] * (size - i - 1))
        out.append([lo] * (size - 1) + [hi])
    one = 1 if hi >= 1 else hi
    neg = -1 if lo <= -1 else 0
    out.append([(lo, hi, 0, one, neg)[i % 5] for i in range(size)])
    out.append([(0, one, hi, neg, lo)[(i * 2) % 5] for i in range(size)])
    rb = al.seed_bits(seed, 'c15/%d/%d' % (f.n_word, size), f.n_word, size)
    out.append([b - (1 << f.n_word) if (f.signed and b >> (f.n_word - 1)) else b for b in rb])
    seen, res = set(), []
    for v in out:
        t = tuple(v)
        if t not in seen:
            seen.add(t)
            res.append(v)
    return res


def fr_array(f, cs, shape):
    a = np.empty(len(cs), dtype=object)
    for i, c in enumerate(cs):
        a[i] = f.value(c)
    return a.reshape(shape)


def exact_of(z):
    f = fmt_of(z)
    return [f.value(c) for c in codes(z)]


def calls(shape):
    """(function name, route, kwargs) applicable to the shape"""
    nd = len(shape)
    axes = [None] + list(range(nd)) + list(range(-nd, 0))          # negative axes are valid axes too
    out = []
    for fn in ('sum', 'cumsum', 'prod', 'cumprod', 'max', 'min'):
        for ax in axes:
            for route in ('np', 'method'):
                out.append((fn, route, {'axis': ax}))
    for ax in list(range(nd)) + [None]:
        out.append(('sort', 'np', {'axis': ax}))
    out.append(('sort', 'method', {'axis': -1}))
    for route in ('np', 'method'):
        out.append(('clip', route, {}))
        for b in ('outside', 'neglow', 'ints'):
            out.append(('clip', route, {'b': b}))
        out.append(('transpose', route, {}))
    out.append(('T', 'method', {}))
    if nd == 2:
        for route in ('np', 'method'):
            out.append(('trace', route, {}))
            out.append(('diagonal', route, {}))
            if shape[0] > 1 and shape[1] > 1:
                out.append(('trace', route, {'offset': 1}))
                out.append(('diagonal', route, {'offset': 1}))
    return out


def clip_bounds(f, b):
    """bounds in LSBs: default inside the range on both sides; 'outside' beyond both ends (inactive); 'neglow' a negative lower bound
    also for unsigned formats (inactive there); 'ints' plain Python integers"""
    if b == 'outside':
        return f.lo - 3, f.hi + 3
    if b == 'neglow':
        return -(f.hi // 2) - 1, f.hi // 2
    if b == 'ints':
        return None
    return f.lo // 2, f.hi // 2


def run_call(fn, route, kw, x, f):
    lsb = 2.0 ** -f.n_frac
    if fn == 'clip':
        cb = clip_bounds(f, kw.get('b'))
        if cb is None:
            a_min, a_max = -1, 1
        else:
            a_min, a_max = cb[0] * lsb, cb[1] * lsb
        return np.clip(x, a_min, a_max) if route == 'np' else x.clip(a_min, a_max)
    if fn == 'T':
        return x.T
    if fn == 'sort' and route == 'method':
        y = x.deepcopy()
        r = y.sort(**kw)
        return y if r is None else r
    if route == 'np':
        return getattr(np, fn)(x, **kw)
    return getattr(x, fn)(**kw)


def oracle(fn, kw, fa, f):
    if fn == 'clip':
        lsb = Fraction(2) ** -f.n_frac
        cb = clip_bounds(f, kw.get('b'))
        a_min, a_max = (Fraction(-1), Fraction(1)) if cb is None else (cb[0] * lsb, cb[1] * lsb)
        out = np.empty(fa.shape, dtype=object)
        for idx in np.ndindex(fa.shape):
            out[idx] = min(max(fa[idx], a_min), a_max)
        return out
    if fn == 'T':
        return fa.T
    if fn == 'sort':
        return np.sort(fa, **kw)
    return getattr(np, fn)(fa, **kw)


def judge(acc, f, shape, cs, fn, route, kw, part, by='raw'):
    case = {'part': part, 'fmt': list(f), 'shape': list(shape), 'codes': list(cs), 'fn': fn, 'route': route, 'kw': kw, 'by': by}
    acc.dim('built_by', by)
    size = len(cs)
    if fn in ('prod', 'cumprod'):
        k = size if (kw.get('axis') is None or fn == 'cumprod') else shape[kw['axis']]
        if k * f.n_word > 53:
            acc.skipped += 1
            return None
    acc.evaluations += 1
    acc.transitions += 1
    acc.dim('fn', fn)
    acc.dim('route', route)
    if all(c in (f.lo, f.hi) for c in cs) or size % 2 == 1:
        acc.nontrivial += 1
    try:
        x = build(f, cs, tuple(shape), by)
        z = run_call(fn, route, kw, x, f)
    except Exception as e:
        acc.violation('exception', case, '%s %s %s%s on %s codes %s raised %r' % (route, fn, kw, shape, f.dtype, str(cs)[:40], e), {'part': part, 'fn': fn, 'route': route})
        return None
    if not isinstance(z, Fxp):
        acc.violation('type', case, '%s %s returned %r, not an Fxp' % (route, fn, type(z)), {'part': part, 'fn': fn, 'route': route})
        return None
    exp = oracle(fn, kw, fr_array(f, cs, shape), f)
    eshape = tuple(np.shape(exp))
    ev = [v for v in np.asarray(exp, dtype=object).ravel().tolist()] if eshape else [exp]
    try:
        gv = exact_of(z)
    except Exception as e:
        acc.violation('exception', case, 'result of %s %s unreadable: %r' % (route, fn, e), {'part': part, 'fn': fn, 'route': route})
        return None
    if tuple(np.shape(z.val)) != eshape or gv != ev:
        acc.violation('value', case, '%s %s %s on %s%s codes %s: result %s shape %s values %s, exact result shape %s values %s'
                      % (route, fn, kw, f.dtype, shape, str(cs)[:60], z.dtype, np.shape(z.val), [str(v) for v in gv[:6]], eshape, [str(v) for v in ev[:6]]),
                      {'part': part, 'fn': fn, 'route': route})
        return None
    fl = flags(z)
    if fn in ACCUM and (fl[0] or fl[1]):
        acc.violation('flags', case, '%s %s on %s raised overflow/underflow %s' % (route, fn, f.dtype, fl), {'part': part, 'fn': fn, 'route': route})
    if codes(x) != list(cs):
        acc.violation('operand_changed', case, '%s %s modified its operand' % (route, fn), {'part': part, 'fn': fn, 'route': route})
    acc.states.add((fmt_of(z), eshape))
    acc.outcome('exact')
    acc.sample(case, 1)
    return (fmt_of(z), tuple(codes(z)))


def judge_inplace(acc, f, shape, cs, part):
    """f(x), then x[idx] = v in place (and x.sort() for the method form), then f(x) again: the second result must see the new element"""
    size = len(cs)
    idx = (0,) * len(shape)
    newc = f.lo if cs[0] != f.lo else f.hi
    now = [newc] + list(cs[1:])
    y2 = None
    for fn, call in (('sum', lambda x: np.sum(x)), ('cumsum', lambda x: np.cumsum(x)), ('max', lambda x: x.max()), ('min', lambda x: np.min(x)),
                     ('matmul', lambda x: np.matmul(x, x.T) if len(shape) == 2 else np.matmul(x, x)),
                     ('dot', lambda x: np.dot(x, x.T) if len(shape) == 2 else x.dot(x)), ('sort', lambda x: np.sort(x, axis=None)),
                     ('clip', lambda x: x.clip(f.fvalue(f.lo // 2), f.fvalue(f.hi // 2))), ('sin', lambda x: np.sin(x))):
        for by in ('value', 'raw'):
          case = {'part': part, 'inplace': True, 'fmt': list(f), 'shape': list(shape), 'codes': list(cs), 'fn': fn, 'by': by}
          if 2 * f.n_word + 4 > 53:
              continue
          acc.evaluations += 1
          acc.transitions += 4
          acc.nontrivial += 1
          try:
              x = build(f, cs, tuple(shape), by)
              call(x)
              x[idx] = f.fvalue(newc)
              z = call(x)
              ref = call(build(f, now, tuple(shape), 'raw'))           # the same function on a fresh object holding the new codes
              same = (fmt_of(z), codes(z), np.shape(z.val)) == (fmt_of(ref), codes(ref), np.shape(ref.val)) if isinstance(z, Fxp) else \
                  np.array_equal(np.asarray(z), np.asarray(ref))
          except Exception as e:
              acc.violation('exception', case, '%s history on %s%s raised %r' % (fn, f.dtype, shape, e), {'part': part, 'fn': fn, 'aspect': 'inplace'})
              continue
          if not same:
              acc.violation('inplace', case, '%s(x), x%s = code %d, %s(x) again on %s%s codes %s: result differs from the same call on a fresh object with the new codes'
                            % (fn, list(idx), newc, fn, f.dtype, shape, list(cs)), {'part': part, 'fn': fn, 'aspect': 'inplace'})
          else:
              acc.outcome('inplace_ok')


def judge_array_cfg(acc, f, shape, cs, part):
    """numpy-function route with the operand's array_op_* configuration: results must land, exactly, in the configured destination"""
    if 2 * f.n_word + 6 > 40:
        return
    for fn in ('sum', 'cumsum', 'max', 'sort', 'dot', 'prod' if len(cs) * f.n_word <= 24 else 'min'):
        k = len(cs) if fn == 'prod' else 2
        tf = Fmt(True, k * f.n_word + 12, max(f.n_frac, 0) * k + 3)        # wide and finer than the result: stores it exactly
        for method in ('raw', 'repr'):
            for dest in ('array_op_out_like', 'array_op_out'):
                case = {'part': part, 'arraycfg': True, 'fmt': list(f), 'shape': list(shape), 'codes': list(cs), 'fn': fn, 'method': method, 'dest': dest}
                acc.evaluations += 1
                acc.transitions += 2
                acc.nontrivial += 1
                try:
                    x = build(f, cs, tuple(shape), 'raw')
                    ref = oracle(fn, {}, fr_array(f, cs, shape), f) if fn != 'dot' else np.dot(fr_array(f, cs, shape), fr_array(f, cs, shape).T if len(shape) == 2 else fr_array(f, cs, shape))
                    eshape = tuple(np.shape(ref))
                    t = Fxp(np.zeros(eshape) if eshape else 0.0, tf.signed, tf.n_word, tf.n_frac)
                    x.config.array_op_method = method
                    setattr(x.config, dest, t)
                    z = getattr(np, fn)(x) if fn != 'dot' else np.dot(x, x.T if len(shape) == 2 else x)
                    gv = exact_of(z)
                except Exception as e:
                    acc.violation('exception', case, 'np.%s with %s (%s) on %s%s raised %r' % (fn, dest, method, f.dtype, shape, e),
                                  {'part': part, 'fn': fn, 'aspect': 'array_cfg'})
                    continue
                ev = np.asarray(ref, dtype=object).ravel().tolist() if eshape else [ref]
                if gv != ev or fmt_of(z) != tf or (dest == 'array_op_out' and z is not t):
                    acc.violation('array_cfg', case, 'np.%s(x) with config.%s = %s and array_op_method=%s on %s%s codes %s: %s values %s, exact %s'
                                  % (fn, dest, tf.dtype, method, f.dtype, shape, list(cs), z.dtype, [str(v) for v in gv[:4]], [str(v) for v in ev[:4]]),
                                  {'part': part, 'fn': fn, 'aspect': 'array_cfg'})
                else:
                    acc.outcome('array_cfg_ok')


def judge_dot(acc, fxm, fym, sx, sy, xs, ys, fn, route, part, by='raw'):
    case = {'part': part, 'fx': list(fxm), 'fy': list(fym), 'sx': list(sx), 'sy': list(sy), 'xs': list(xs), 'ys': list(ys), 'fn': fn, 'route': route, 'by': by}
    acc.dim('built_by', by)
    acc.evaluations += 1
    acc.transitions += 1
    acc.dim('fn', fn)
    acc.dim('route', route)
    acc.nontrivial += 1
    try:
        x = build(fxm, xs, tuple(sx), by)
        y = build(fym, ys, tuple(sy), by)
        if fn == 'dot':
            z = np.dot(x, y) if route == 'np' else x.dot(y)
        else:
            z = np.matmul(x, y)
        exp = np.dot(fr_array(fxm, xs, sx), fr_array(fym, ys, sy))
    except Exception as e:
        acc.violation('exception', case, '%s %s %s%s . %s%s raised %r' % (route, fn, fxm.dtype, sx, fym.dtype, sy, e), {'part': part, 'fn': fn, 'route': route})
        return
    if not isinstance(z, Fxp):
        acc.violation('type', case, '%s %s returned %r' % (route, fn, type(z)), {'part': part, 'fn': fn, 'route': route})
        return
    eshape = tuple(np.shape(exp))
    ev = np.asarray(exp, dtype=object).ravel().tolist() if eshape else [exp]
    gv = exact_of(z)
    if tuple(np.shape(z.val)) != eshape or gv != ev:
        acc.violation('value', case, '%s %s: %s%s codes %s . %s%s codes %s = %s %s, exact %s'
                      % (route, fn, fxm.dtype, sx, xs, fym.dtype, sy, ys, z.dtype, [str(v) for v in gv[:6]], [str(v) for v in ev[:6]]),
                      {'part': part, 'fn': fn, 'route': route})
        return
    fl = flags(z)
    if fl[0] or fl[1]:
        acc.violation('flags', case, '%s %s raised overflow/underflow %s' % (route, fn, fl), {'part': part, 'fn': fn, 'route': route})
    acc.outcome('dot_exact')
    acc.sample(case, 1)


DOT_SHAPES = (((3,), (3,)), ((2,), (2,)), ((5,), (5,)), ((1, 3), (3, 1)), ((2, 3), (3, 2)), ((3, 2), (2, 3)), ((3, 3), (3, 3)), ((2, 2), (2,)),
              ((3,), (3, 2)), ((2, 3), (3,)), ((3, 1), (1, 3)), ((1, 2), (2, 1)), ((2, 1), (1, 1)))


def bounds(tier, seed):
    return {'reductions': '12 shapes x %d formats (n_word in %s, n_frac {0,mid,n}, both signednesses) x fills (%s; patterns over {lo,hi,0,+-1}; seed '
                          'extras) x sum, cumsum, prod, cumprod, max, min (axis None, each axis and each negative axis, numpy and method routes; f(x), in-place x[i]=v, f(x) again; numpy route with config.array_op_out / array_op_out_like and array_op_method raw / repr), sort, clip, transpose, T, '
                          'trace, diagonal (offset 0 and 1)' % (len(formats()), WORDS, 'every assignment of {lo,hi} for sizes <= 4, structured extreme '
                                                                'patterns above' if tier == 'quick' else 'every assignment of {lo,hi} to the elements (2^size)'),
            'dot': '13 shape pairs x all ordered format pairs of the grid (mixed signedness) x extreme fills {all lo, all hi, lo/hi alternating, hi/lo} '
                   'per operand, np.dot, x.dot, np.matmul', 'seed': seed}


def shards(tier, seed):
    out = []
    fs = formats()
    for i in range(len(fs)):
        for si in range(len(SHAPES)):
            out.append({'part': 'R', 'fi': i, 'si': si, 'full': tier != 'quick', 'seed': seed})
        out.append({'part': 'D', 'fi': i, '_cost': 10})
    return out


def run_shard(sh):
    reset_class_state()
    acc = Acc()
    fs = formats()
    f = fs[sh['fi']]
    if sh['part'] == 'R':
        shape = SHAPES[sh['si']]
        size = int(np.prod(shape))
        fl = fills(f, size, sh['full'], sh['seed'])
        for cs in (fl[0], fl[-1], fl[-2]):
            judge_inplace(acc, f, shape, cs, 'R')
            judge_array_cfg(acc, f, shape, cs, 'R')
        nth = sh['fi'] + sh['si']
        for cs in fl:
            res = {}
            for fn, route, kw in calls(shape):
                if route == 'np':
                    judge(acc, f, shape, cs, fn, route, kw, 'R', 'value')
                r = judge(acc, f, shape, cs, fn, route, kw, 'R')
                nth += 1
                if cs is fl[-2] and (nth % 3 == 1 or f.n_word <= 2):
                    judge(acc, f, shape, cs, fn, route, kw, 'R', 'env:' + ENVS[(nth // 3) % len(ENVS)])       # operand in an environment
                if cs is fl[-1] and (nth % 3 == 0 or f.n_word <= 2):
                    judge(acc, f, shape, cs, fn, route, kw, 'R', AGED[(nth // 3) % len(AGED)])       # operand reached through a history
                key = (fn, tuple(sorted(kw.items())))
                if r is not None and fn != 'sort':
                    if key in res and res[key] != r:
                        acc.violation('routes_differ', {'part': 'R', 'fmt': list(f), 'shape': list(shape), 'codes': list(cs), 'fn': fn, 'route': route, 'kw': kw},
                                      'numpy and method routes of %s %s disagree on %s%s: %s vs %s' % (fn, kw, f.dtype, shape, res[key], r),
                                      {'part': 'R', 'fn': fn})
                    res[key] = r
    else:
        for fym in fs:
            for sx, sy in DOT_SHAPES:
                nx, ny = int(np.prod(sx)), int(np.prod(sy))
                k = sx[-1]
                if int(np.ceil(np.log2(k))) + f.n_word + fym.n_word > 53:
                    acc.skipped += 1
                    continue
                for px in ('lo', 'hi', 'lohi', 'hilo'):
                    for py in ('lo', 'hi', 'lohi'):
                        xs = [{'lo': f.lo, 'hi': f.hi, 'lohi': (f.lo, f.hi)[i % 2], 'hilo': (f.hi, f.lo)[i % 2]}[px] for i in range(nx)]
                        ys = [{'lo': fym.lo, 'hi': fym.hi, 'lohi': (fym.lo, fym.hi)[i % 2]}[py] for i in range(ny)]
                        judge_dot(acc, f, fym, sx, sy, xs, ys, 'dot', 'np', 'D')
                        judge_dot(acc, f, fym, sx, sy, xs, ys, 'dot', 'method', 'D')
                        judge_dot(acc, f, fym, sx, sy, xs, ys, 'matmul', 'np', 'D')
                        if px == 'lohi' and py == 'lohi' and (sh['fi'] + fs.index(fym) + DOT_SHAPES.index((sx, sy))) % 5 == 0:
                            how = AGED[(fs.index(fym) + 2 * DOT_SHAPES.index((sx, sy))) % len(AGED)]
                            judge_dot(acc, f, fym, sx, sy, xs, ys, 'matmul', 'np', 'D', how)       # operands reached through a history
                            judge_dot(acc, f, fym, sx, sy, xs, ys, 'dot', 'method', 'D', how)
    return acc


def replay(case):
    reset_class_state()
    acc = Acc()
    if case.get('arraycfg'):
        judge_array_cfg(acc, Fmt(*case['fmt']), tuple(case['shape']), case['codes'], case['part'])
        return [v for v in acc.violations if v['case'].get('fn') == case['fn'] and v['case'].get('method') == case['method'] and v['case'].get('dest') == case['dest']]
    if case.get('inplace'):
        judge_inplace(acc, Fmt(*case['fmt']), tuple(case['shape']), case['codes'], case['part'])
        return [v for v in acc.violations if v['case'].get('fn') == case['fn']]
    if 'fx' in case:
        judge_dot(acc, Fmt(*case['fx']), Fmt(*case['fy']), tuple(case['sx']), tuple(case['sy']), case['xs'], case['ys'], case['fn'], case['route'], case['part'], case.get('by', 'raw'))
    else:
        f = Fmt(*case['fmt'])
        shape = tuple(case['shape'])
        kw = case['kw']
        judge(acc, f, shape, case['codes'], case['fn'], case['route'], kw, case['part'], case.get('by', 'raw'))
        if not acc.violations and case.get('fn') != 'sort':
            other = 'method' if case['route'] == 'np' else 'np'
            a = judge(Acc(), f, shape, case['codes'], case['fn'], case['route'], kw, case['part'])
            b = judge(Acc(), f, shape, case['codes'], case['fn'], other, kw, case['part'])
            if a is not None and b is not None and a != b:
                acc.violation('routes_differ', case, 'routes disagree: %s vs %s' % (a, b), {'part': 'R', 'fn': case['fn']})
    return acc.violations


def finish(merged, tier, seed):
    for k in ('exact', 'dot_exact'):
        if merged['outcomes'].get(k, 0) < 100:
            raise HarnessError('outcome %s under-exercised' % k)
    for fn in ('sum', 'cumsum', 'prod', 'cumprod', 'max', 'min', 'sort', 'clip', 'transpose', 'trace', 'diagonal', 'dot', 'matmul'):
        if merged['dims']['fn'].get(fn, 0) < 50:
            raise HarnessError('function %s under-exercised' % fn)
    return {}
