"""C09 - division family: x/y within one LSB (exact when representable, never overflows), x//y == floor(x/y), x%y == x - y*floor(x/y)."""
from fractions import Fraction
import numpy as np
from ..runner import Acc, HarnessError
from ..refmodel import Fmt
from ..common import Fxp, fx, codes, flags, fmt_of, reset_class_state, build, AGED, ENVS

ID = 'C09'
RULE = ('cases = (format pair, op in {/, //, %}, method raw/repr, rounding of the first operand, code pair with divisor != 0), executed with '
        'broadcasting and as scalars; judged on exact Fractions: / exact if representable in the result format else strictly within one LSB '
        'and no overflow/underflow flag, // == floor(x/y), % == x - y*floor(x/y), (x//y)*y + x%y == x, raw == repr on // and %. '
        'non-trivial = inexact or negative quotient, or an extreme quotient (lo / +-1 code); distinct by construction')
ASSUMPTIONS = ['optimal result formats as anchored: / -> n_int = x.n_int + y.n_frac + signed, n_frac = x.n_frac + y.n_int; // -> same n_int, n_frac 0; '
               '% -> n_int = max (signed) or min (unsigned), n_frac = max', 'operands hold exact codes (built raw)']

OPS = ('/', '//', '%')
C09_ENVS = tuple(e for e in ENVS if e != 'cfg:op_method=repr')
ROUNDS = ('trunc', 'floor', 'around')


def formats(kmax):
    return [Fmt(s, nw, nf) for s in (True, False) for nw in range(1, kmax + 1) for nf in range(0, nw + 1)]


def result_fmt(op, x, y):
    signed = x.signed or y.signed
    if op == '/':
        ni, nf = x.n_int + y.n_frac + int(signed), x.n_frac + y.n_int
    elif op == '//':
        ni, nf = x.n_int + y.n_frac + int(signed), 0
    else:
        ni = max(x.n_int, y.n_int) if signed else min(x.n_int, y.n_int)
        nf = max(x.n_frac, y.n_frac)
    return Fmt(signed, int(signed) + ni + nf, nf)


def floor_frac(fr):
    return fr.numerator // fr.denominator


def run_op(op, x, y, method):
    f = {'/': fx.truediv, '//': fx.floordiv, '%': fx.mod}[op]
    return f(x, y, method=method)


def judge(acc, fxm, fym, xs, ys, op, method, rnd, shape_mode, part, by='raw'):
    ys = [b for b in ys if b != 0]
    if not xs or not ys:
        return None
    case = {'part': part, 'fx': list(fxm), 'fy': list(fym), 'xs': list(xs), 'ys': list(ys), 'op': op, 'method': method, 'rounding': rnd,
            'shape': shape_mode, 'by': by}
    fz = result_fmt(op, fxm, fym)
    if fz.n_word < 1 or fz.n_word > 53:
        acc.skipped += 1
        return None
    if shape_mode == 'outer':
        shx, shy = (len(xs), 1), (1, len(ys))
        pairs = [(a, b) for a in xs for b in ys]
    else:
        shx, shy = (), ()
        pairs = [(xs[0], ys[0])]
    acc.transitions += 1
    acc.evaluations += len(pairs)
    acc.dim('op', op, len(pairs))
    acc.dim('method', method, len(pairs))
    try:
        x = build(fxm, xs, shx, by, rounding=rnd)
        y = build(fym, ys, shy, by)
        z = run_op(op, x, y, method)
        got = codes(z)
        gf = fmt_of(z)
        fl = flags(z)
    except Exception as e:
        acc.violation('exception', case, '%s %s %s method=%s rounding=%s raised %r' % (fxm.dtype, op, fym.dtype, method, rnd, e),
                      {'part': part, 'op': op, 'method': method})
        return None
    if gf != fz:
        acc.violation('format', case, '%s %s %s: result format %s, expected %s' % (fxm.dtype, op, fym.dtype, gf.dtype, fz.dtype),
                      {'part': part, 'op': op, 'method': method})
        return None
    lsb = Fraction(2) ** (-fz.n_frac)
    any_inexact = False
    for i, (a, b) in enumerate(pairs):
        xv, yv = fxm.value(a), fym.value(b)
        q = xv / yv
        zc = got[i] if i < len(got) else None
        zv = fz.value(zc) if zc is not None else None
        err = None
        if op == '/':
            rep = (q / lsb).denominator == 1
            if rep:
                acc.outcome('quotient_exact')
                if zv != q:
                    err = 'quotient %s is representable in %s but the result is %s' % (q, fz.dtype, zv)
            else:
                any_inexact = True
                acc.nontrivial += 1
                acc.outcome('quotient_inexact')
                if not (abs(zv - q) < lsb):
                    err = 'quotient %s: result %s is not one of its two neighbours in %s' % (q, zv, fz.dtype)
            if q < 0 and rep:
                acc.nontrivial += 1
            if not (fz.lo <= floor_frac(q / lsb) and -floor_frac(-q / lsb) <= fz.hi):
                err = 'exact quotient %s does not fit the optimal result format %s' % (q, fz.dtype)
        elif op == '//':
            e = floor_frac(q)
            if q.denominator != 1 or q < 0:
                acc.nontrivial += 1
            acc.outcome('floordiv_neg' if q < 0 else 'floordiv_pos')
            if zv != e:
                err = 'floor(%s / %s) = %d but x//y = %s' % (xv, yv, e, zv)
        else:
            e = xv - yv * floor_frac(q)
            if e != 0:
                acc.nontrivial += 1
            acc.outcome('mod_divisor_neg' if yv < 0 else 'mod_divisor_pos')
            if zv != e:
                err = '%s - %s*floor(%s/%s) = %s but x%%y = %s' % (xv, yv, xv, yv, e, zv)
        if err:
            acc.violation('value', dict(case, xs=[a], ys=[b], shape='scalar'), '%s code %d %s %s code %d method=%s rounding=%s: %s'
                          % (fxm.dtype, a, op, fym.dtype, b, method, rnd, err), {'part': part, 'op': op, 'method': method}, full=case)
            return None
        acc.states.add((fz, zc))
    if fl[0] or fl[1]:
        acc.violation('flags', case, '%s %s %s method=%s: overflow/underflow flags %s raised with optimal sizing' % (fxm.dtype, op, fym.dtype, method, fl),
                      {'part': part, 'op': op, 'method': method})
    elif op != '/' and fl[2] and by != 'env:flagged':
        acc.violation('flags', case, '%s %s %s method=%s: exact operation flagged inexact' % (fxm.dtype, op, fym.dtype, method),
                      {'part': part, 'op': op, 'method': method})
    acc.sample(dict(case, xs=list(xs)[:3], ys=list(ys)[:3]), 1)
    return got


def judge_all(acc, fxm, fym, xs, ys, part, scalars=False, aged=()):
    for op in OPS:
        for method in ('raw', 'repr'):
            judge(acc, fxm, fym, xs, ys, op, method, 'floor', 'outer', part, 'value')       # operands with an integer value type
            for how in aged:                                                                  # operands reached through a history
                judge(acc, fxm, fym, xs, ys, op, method, 'around', 'outer', part, how)
    for rnd in ROUNDS:
        res = {}
        for op in OPS:
            for method in ('raw', 'repr'):
                res[(op, method)] = judge(acc, fxm, fym, xs, ys, op, method, rnd, 'outer', part)
        # raw and repr agree on // and %
        for op in ('//', '%'):
            a, b = res[(op, 'raw')], res[(op, 'repr')]
            if a is not None and b is not None and a != b:
                acc.violation('raw_vs_repr', {'part': part, 'fx': list(fxm), 'fy': list(fym), 'xs': list(xs), 'ys': list(ys), 'op': op, 'method': 'raw',
                                              'rounding': rnd, 'shape': 'outer'}, '%s %s %s: raw and repr disagree' % (fxm.dtype, op, fym.dtype),
                              {'part': part, 'op': op})
        # (x//y)*y + x%y == x on exact values
        fd, md = res[('//', 'raw')], res[('%', 'raw')]
        if fd is not None and md is not None:
            fzd, fzm = result_fmt('//', fxm, fym), result_fmt('%', fxm, fym)
            k = 0
            for a in xs:
                for b in [t for t in ys if t != 0]:
                    acc.evaluations += 1
                    if fzd.value(fd[k]) * fym.value(b) + fzm.value(md[k]) != fxm.value(a):
                        acc.violation('identity', {'part': part, 'fx': list(fxm), 'fy': list(fym), 'xs': [a], 'ys': [b], 'op': '//', 'method': 'raw',
                                                   'rounding': rnd, 'shape': 'scalar', 'identity': True},
                                      '(x//y)*y + x%%y != x for %s code %d, %s code %d' % (fxm.dtype, a, fym.dtype, b), {'part': part, 'op': 'identity'})
                        break
                    k += 1
    if scalars:
        for a in xs:
            for b in ys:
                if b != 0:
                    for op in OPS:
                        judge(acc, fxm, fym, [a], [b], op, 'raw', 'trunc', 'scalar', part + 's')


def judge_inplace(acc, fxm, fym, part):
    """x op y, then x[i] = v / y[j] = w in place, then the same operation on the same objects again"""
    xs = [c for c in (fxm.lo, fxm.hi, fxm.hi // 2 + 1, 1) if fxm.lo <= c <= fxm.hi][:3]
    ys = [c for c in (fym.hi, fym.lo, 1, -1) if fym.lo <= c <= fym.hi and c != 0][:3]
    if len(xs) < 2 or len(ys) < 2 or len(xs) != len(ys):
        n = min(len(xs), len(ys))
        xs, ys = xs[:n], ys[:n]
        if n < 2:
            return
    for op in OPS:
        fz = result_fmt(op, fxm, fym)
        if fz.n_word < 1 or fz.n_word > 53:
            continue
        for method in ('raw', 'repr'):
            case = {'part': part, 'inplace': True, 'fx': list(fxm), 'fy': list(fym), 'xs': xs, 'ys': ys, 'op': op, 'method': method}
            acc.evaluations += 2
            acc.transitions += 5
            acc.nontrivial += 1
            try:
                x = build(fxm, xs, (len(xs),), 'raw')
                y = build(fym, ys, (len(ys),), 'raw')
                run_op(op, x, y, method)
                x[0] = fxm.value(xs[-1]).__float__()
                y[1] = fym.value(ys[0]).__float__()
                z = run_op(op, x, y, method)
                got = [fmt_of(z).value(c) for c in codes(z)]
            except Exception as e:
                acc.violation('exception', case, 'in-place history on %s %s %s raised %r' % (fxm.dtype, op, fym.dtype, e), {'part': part, 'op': op})
                continue
            nx = [xs[-1]] + xs[1:]
            ny = [ys[0], ys[0]] + ys[2:]
            lsb = Fraction(2) ** (-fz.n_frac)
            for i, (a, b) in enumerate(zip(nx, ny)):
                q = fxm.value(a) / fym.value(b)
                if op == '/':
                    ok = abs(got[i] - q) < lsb and ((q / lsb).denominator != 1 or got[i] == q)
                elif op == '//':
                    ok = got[i] == floor_frac(q)
                else:
                    ok = got[i] == fxm.value(a) - fym.value(b) * floor_frac(q)
                if not ok:
                    acc.violation('inplace', case, '%s %s %s (%s): after x[0]=..., y[1]=... element %d is %s for operands %s, %s'
                                  % (fxm.dtype, op, fym.dtype, method, i, got[i], fxm.value(a), fym.value(b)), {'part': part, 'op': op})
                    break
            acc.outcome('inplace_ok')


def judge_out(acc, fxm, fym, xs, ys, part):
    """x op y stored into a caller-supplied destination (out=, numpy out=, config.op_out) that has more integer and fraction bits than
    the optimal result: // and % must still be exact, / within one LSB of the destination"""
    ys = [b for b in ys if b != 0]
    if not xs or not ys:
        return
    for op in OPS:
        fz = result_fmt(op, fxm, fym)
        if fz.n_word < 1 or fz.n_word > 40:
            continue
        dfmt = Fmt(True, fz.n_word + 6, fz.n_frac + 3)
        for via in ('out=', 'np_out', 'op_out'):
            case = {'part': part, 'outdest': True, 'fx': list(fxm), 'fy': list(fym), 'xs': list(xs), 'ys': list(ys), 'op': op, 'via': via}
            acc.evaluations += len(xs) * len(ys)
            acc.transitions += 1
            acc.nontrivial += 1
            try:
                x = build(fxm, xs, (len(xs), 1), 'raw')
                y = build(fym, ys, (1, len(ys)), 'raw')
                t = Fxp(np.zeros((len(xs), len(ys))), dfmt.signed, dfmt.n_word, dfmt.n_frac)
                if via == 'out=':
                    z = run_op_kw(op, x, y, out=t)
                elif via == 'np_out':
                    z = {'/': np.true_divide, '//': np.floor_divide, '%': np.mod}[op](x, y, out=t)
                else:
                    x.config.op_out = t
                    z = (x / y) if op == '/' else ((x // y) if op == '//' else (x % y))
                got = [dfmt.value(c) for c in codes(z)]
            except Exception as e:
                acc.violation('exception', case, '%s %s %s into %s via %s raised %r' % (fxm.dtype, op, fym.dtype, dfmt.dtype, via, e),
                              {'part': part, 'op': op, 'via': via})
                continue
            lsb = Fraction(2) ** (-dfmt.n_frac)
            k = 0
            bad = None
            for a in xs:
                for b in ys:
                    xv, yv = fxm.value(a), fym.value(b)
                    q = xv / yv
                    if op == '/':
                        ok = abs(got[k] - q) < lsb and ((q / lsb).denominator != 1 or got[k] == q)
                    elif op == '//':
                        ok = got[k] == floor_frac(q)
                    else:
                        ok = got[k] == xv - yv * floor_frac(q)
                    if not ok and bad is None:
                        bad = (a, b, got[k])
                    k += 1
            if bad or z is not t:
                acc.violation('out', case, '%s code %d %s %s code %d stored into %s via %s gives %s' % (fxm.dtype, bad[0] if bad else 0, op, fym.dtype,
                                                                                                       bad[1] if bad else 0, dfmt.dtype, via, bad[2] if bad else 'another object'),
                              {'part': part, 'op': op, 'via': via})
            else:
                acc.outcome('out_ok')


def run_op_kw(op, x, y, **kw):
    return {'/': fx.truediv, '//': fx.floordiv, '%': fx.mod}[op](x, y, **kw)


def bounds(tier, seed):
    k = 4 if tier == 'quick' else 5
    return {'small_scope': 'all ordered pairs of formats n_word<=%d, n_frac 0..n_word, both signednesses (%d formats) x every code pair with divisor != 0 '
                           '(broadcast) x {/, //, %%} x {raw, repr} x roundings {trunc, floor, around}; operands built by value; results stored into a wider, finer destination via out= / numpy out= / config.op_out (n_word<=3); in-place element assignment between two '
                           'operations on the same objects; scalar route for n_word<=%d'
                           % (k, len(formats(k)), 2 if tier == 'quick' else 3),
            'boundary': 'format pairs n_word in %s x n_frac {0, mid, n} with result word<=53: dividend in {lo, lo+1, -1, 1, hi-1, hi}, divisor in '
                        '{+-1, +-2, +-3, lo, hi}' % ([6, 8, 13, 16, 21, 26] if tier == 'quick' else list(range(6, 27))),
            'seed': seed}


def shards(tier, seed):
    out = []
    k = 4 if tier == 'quick' else 5
    fs = formats(k)
    for i in range(len(fs)):
        out.append({'part': 'S', 'k': k, 'i': i, 'ks': 2 if tier == 'quick' else 3})
    nws = [6, 8, 13, 16, 21, 26] if tier == 'quick' else list(range(6, 27))
    for nw in nws:
        out.append({'part': 'B', 'nw': nw, 'nws': nws})
    for nw in FAR_WORDS:
        out.append({'part': 'F', 'nw': nw})
    return out


FAR_WORDS = (12, 30, 40, 52)


def bfmts(nws):
    return [Fmt(s, nw, nf) for s in (True, False) for nw in nws for nf in sorted({0, nw // 2, nw})]


def run_shard(sh):
    reset_class_state()
    acc = Acc()
    if sh['part'] == 'S':
        fs = formats(sh['k'])
        fxm = fs[sh['i']]
        xs = list(range(fxm.lo, fxm.hi + 1))
        for fym in fs:
            ys = list(range(fym.lo, fym.hi + 1))
            hows = AGED if max(fxm.n_word, fym.n_word) <= 2 else (AGED[(sh['i'] + fs.index(fym)) % len(AGED)],)
            hows = tuple(hows) + tuple('env:' + e for e in (C09_ENVS if max(fxm.n_word, fym.n_word) <= 2 else (C09_ENVS[(sh['i'] + 3 * fs.index(fym)) % len(C09_ENVS)],)))
            judge_all(acc, fxm, fym, xs, ys, 'S', scalars=(fxm.n_word <= sh['ks'] and fym.n_word <= sh['ks']), aged=hows)
            judge_inplace(acc, fxm, fym, 'S')
            if fxm.n_word <= 3 and fym.n_word <= 3:
                judge_out(acc, fxm, fym, xs, ys, 'S')
    elif sh['part'] == 'F':
        # wide operands whose binary points are far apart (the divisor or dividend is shifted by many bits before dividing)
        ffs = [Fmt(s, nw, nf) for s in (True, False) for nw in FAR_WORDS for nf in sorted({0, 2, nw // 2, nw - 4, nw})]
        for fxm in [f for f in ffs if f.n_word == sh['nw']]:
            xs = sorted({fxm.lo, fxm.lo + 1, 1, fxm.hi // 3, fxm.hi - 1, fxm.hi} | ({-1} if fxm.signed else set()))
            for fym in ffs:
                ys = sorted(c for c in {1, 3, -1, -3, fym.lo, fym.hi, fym.hi // 2 + 1, (fym.hi // 2 + 1) // 2 * 3} if fym.lo <= c <= fym.hi)
                judge_all(acc, fxm, fym, xs, ys, 'F')
    else:
        for fxm in [f for f in bfmts(sh['nws']) if f.n_word == sh['nw']]:
            xs = sorted({fxm.lo, fxm.lo + 1, 1, fxm.hi - 1, fxm.hi} | ({-1} if fxm.signed else set()))
            for fym in bfmts(sh['nws']):
                ys = sorted(c for c in {1, 2, 3, -1, -2, -3, fym.lo, fym.hi} if fym.lo <= c <= fym.hi)
                judge_all(acc, fxm, fym, xs, ys, 'B')
    return acc


def replay(case):
    reset_class_state()
    acc = Acc()
    fxm, fym = Fmt(*case['fx']), Fmt(*case['fy'])
    if case.get('outdest'):
        judge_out(acc, fxm, fym, case['xs'], case['ys'], case['part'])
        return [v for v in acc.violations if v['case'].get('op') == case['op'] and v['case'].get('via') == case['via']]
    if case.get('inplace'):
        judge_inplace(acc, fxm, fym, case['part'])
        return [v for v in acc.violations if v['case'].get('op') == case['op'] and v['case'].get('method') == case['method']]
    if case.get('by', 'raw') != 'raw':
        judge(acc, fxm, fym, case['xs'], case['ys'], case['op'], case['method'], case['rounding'], case['shape'], case['part'], case['by'])
    elif case.get('identity') or case['shape'] == 'outer':
        judge_all(acc, fxm, fym, case['xs'], case['ys'], case['part'].rstrip('s'))
    else:
        judge(acc, fxm, fym, case['xs'], case['ys'], case['op'], case['method'], case['rounding'], case['shape'], case['part'], case.get('by', 'raw'))
    return acc.violations


def finish(merged, tier, seed):
    for k in ('quotient_exact', 'quotient_inexact', 'floordiv_neg', 'floordiv_pos', 'mod_divisor_neg', 'mod_divisor_pos'):
        if merged['outcomes'].get(k, 0) < 100:
            raise HarnessError('outcome %s under-exercised' % k)
    return {}
