"""C05 - rounding contracts (direction, error bound, ties-to-even, idempotence, monotonicity), checked WITHOUT the
reference quantizer: only order relations between the exact input and the stored code (integers)."""
import numpy as np
from ..runner import Acc, HarnessError
from ..refmodel import Fmt, MODES, ROUNDINGS, OVERFLOWS, dy_float, scaled
from .. import alphabet as al
from ..common import warm, mk, codes, flags, reset_class_state, Fxp
from .c01 import qval, in_core, _nw_list

ID = 'C05'
RULE = ('cases = (format, rounding, overflow, input) with the input inside the representable range; judged by order '
        'relations on exact integers (code*2^s vs scaled input), never by a computed expected code. non-trivial = the input '
        'is not representable (a rounding decision was made) or, for idempotence, every code of the format re-stored; '
        'monotonicity cases = adjacent pairs of the sorted sweep. distinct by construction')
ASSUMPTIONS = ['inputs are exact doubles (checked)', 'get_val() exactness is C01/C16 matter; C05 reads codes']


def bounds(tier, seed):
    k = 7 if tier == 'quick' else 10
    return {'relations_small_scope': 'all formats n_word<=%d, n_frac -8..n_word+8, 10 modes, every quarter-LSB input inside the range' % k,
            'relations_grid': 'formats n_word in %s x boundary/walking-bit alphabet x 7 quarter-LSB offsets (in-range, core domain)'
                              % ('quick list' if tier == 'quick' else '1..52'),
            'idempotence': 'every code of every format n_word<=8 (n_frac -8..n_word+8) and B(f) on the grid, by value, x 10 modes; '
                           'x(x()) and x.set_val(x) on scalars for n_word<=%d' % (4 if tier == 'quick' else 6),
            'monotonicity': 'sorted quarter-LSB sweep over 3x the range (small scope) and sorted boundary+out-of-range alphabet (grid), '
                            'saturate, 5 roundings',
            'seed': seed}


def shards(tier, seed):
    out = []
    k = 7 if tier == 'quick' else 10
    for nw in range(1, k + 1):
        for signed in (True, False):
            out.append({'part': 'S', 'signed': signed, 'nw': nw})
    for nw in _nw_list(tier):
        for signed in (True, False):
            out.append({'part': 'G', 'signed': signed, 'nw': nw, 'seed': seed})
    for nw in range(1, 9):
        for signed in (True, False):
            out.append({'part': 'I', 'signed': signed, 'nw': nw, 'scalar': nw <= (4 if tier == 'quick' else 6)})
    return out


HISTS = ('copy_resized64', 'copy_resized', 'view_resized', 'resized_back', 'used', 'resigned_setitem', 'resigned_dtype_setitem')


def relation(rounding, c, num, s):
    """does code c satisfy the contract of `rounding` for the scaled input num/2**s ?  (all integers)"""
    q = c << s                      # code in units of 2**-s
    one = 1 << s
    if abs(q - num) >= one:
        return 'error bound |q-v| < LSB violated'
    if rounding == 'floor':
        return None if q <= num < q + one else 'floor: need q <= v < q+LSB'
    if rounding == 'ceil':
        return None if q - one < num <= q else 'ceil: need q-LSB < v <= q'
    if rounding in ('trunc', 'fix'):
        if abs(q) > abs(num):
            return 'toward zero: |q| <= |v| violated'
        if (q > 0 and num < 0) or (q < 0 and num > 0):
            return 'toward zero: sign flipped'
        return None
    if rounding == 'around':
        if 2 * abs(q - num) > one:
            return 'around: |q-v| <= LSB/2 violated'
        if 2 * abs(q - num) == one and c % 2 != 0:
            return 'around: exact tie must go to the even code'
        return None
    raise ValueError(rounding)


def judge(acc, fmt, rounding, overflow, ds, part, mono, carrier='farr'):
    """one array store; relation on every in-range element; monotonicity over the whole (sorted) input if mono.
    carrier: farr = float64 array, iarr = int64 array (integer inputs only), int = Python ints one by one"""
    if carrier.startswith('np:'):
        # narrow NumPy dtypes: only the inputs the dtype holds exactly
        t = np.dtype(carrier[3:])
        keep = []
        for d in ds:
            f_ = dy_float(d)
            if t.kind in 'iu':
                if d[1] == 0 and np.iinfo(t).min <= d[0] <= np.iinfo(t).max:
                    keep.append(d)
            elif np.isfinite(t.type(f_)) and float(t.type(f_)) == f_:
                keep.append(d)
        ds = keep
        if not ds:
            return
        vals = np.array([d[0] if t.kind in 'iu' else dy_float(d) for d in ds], dtype=t)
    elif carrier.startswith('fxp'):
        # the value arrives as another Fxp with k more fraction bits: k = 2 holds every quarter-LSB input exactly; for larger k
        # ('fxp+k:route') every input also comes with its two neighbours on the source grid (all bits below the destination LSB but
        # the last are zero: a rounding that forgets the low bits - no sticky bit - gets these wrong)
        k = int(carrier[4:carrier.index(':')]) if carrier.startswith('fxp+') else 2
        sf = Fmt(True, 62 - max(0, fmt.n_frac + k), fmt.n_frac + k) if fmt.n_frac + k <= 40 else None
        if sf is None:
            return
        if k > 2:
            ext = []
            for d in ds:
                if 0 <= d[1] <= sf.n_frac:
                    num = d[0] << (sf.n_frac - d[1])                 # the input on the source grid
                    ext += [(num - 1, sf.n_frac), (num, sf.n_frac), (num + 1, sf.n_frac)]
            ds = sorted(set(ext), key=lambda t: t[0])
            carrier_how = carrier[carrier.index(':') + 1:]
        if k > 2:
            ds = [d for d in ds if abs(d[0]) < (1 << 50)]
        else:
            ds = [d for d in ds if d[1] <= max(sf.n_frac, 0) and abs(scaled(d, sf.n_frac)[0]) < (1 << 50) and scaled(d, sf.n_frac)[1] == 0]
        if not ds:
            return
        vals = None
    elif carrier in ('farr', 'setitem') or carrier.startswith('hist:'):
        if carrier.startswith('hist:resigned') and len(ds) > 48:
            ds = ds[:: len(ds) // 48 + 1] + [ds[-1]]          # written element by element: a sorted subsequence
        vals = np.array([dy_float(d) for d in ds], dtype=np.float64)
    else:
        ds = [d for d in ds if d[1] == 0]
        if not ds:
            return
        vals = np.array([d[0] for d in ds], dtype=np.int64)
    case = {'part': part, 'fmt': list(fmt), 'mode': [rounding, overflow], 'vals': [list(d) for d in ds], 'mono': mono,
            'carrier': carrier}
    acc.transitions += 1
    acc.dim('carrier', carrier, len(ds))
    try:
        if carrier.startswith('fxp'):
            src = Fxp(np.array([(d[0] if d[1] == sf.n_frac and k > 2 else scaled(d, sf.n_frac)[0]) for d in ds], dtype=np.int64), sf.signed, sf.n_word, sf.n_frac, raw=True)
            how = carrier[carrier.index(':') + 1:]
            if how == 'equal':
                x = mk(np.zeros(len(ds)), fmt, rounding, overflow)
                x.equal(src)
            elif how == 'set_val':
                x = mk(np.zeros(len(ds)), fmt, rounding, overflow)
                x.set_val(src)
            elif how == 'like()':
                x = src.like(mk(np.zeros(len(ds)), fmt, rounding, overflow))
            elif how == 'setitem':
                x = mk(np.zeros(len(ds)), fmt, rounding, overflow)
                x[:] = src
            else:
                x = Fxp(src, fmt.signed, fmt.n_word, fmt.n_frac, rounding=rounding, overflow=overflow)
            got, fl = codes(x), flags(x)
            acc.transitions += 1
        elif carrier == 'setitem':
            # an array built earlier from integers (integer value type when n_frac <= 0), then item assignment of each value
            x = mk([0] * len(ds), fmt, rounding, overflow)
            for i, d in enumerate(ds):
                x[i] = dy_float(d)
                acc.transitions += 1
            got, fl = codes(x), flags(x)
        elif carrier.startswith('hist:'):
            # the destination is a live object with a history; the store is a whole-array call / set_val afterwards
            how = carrier[5:]
            x = mk(np.zeros(len(ds)), fmt, rounding, overflow)
            if how == 'copy_resized64':                 # a shallow copy of it was widened to 64 bits
                y = x.copy()
                y.resize(n_word=64)
            elif how == 'copy_resized':
                y = x.copy()
                y.resize(n_word=fmt.n_word + 9, n_frac=fmt.n_frac + 3)
            elif how == 'view_resized':                 # a view of it was widened and written
                y = x[0:1]
                y.resize(n_word=fmt.n_word + 9)
                y.set_val(0, raw=True, index=0)
            elif how == 'resized_back':                 # it was itself 64 bits wide for a while
                x.resize(n_word=64)
                x.resize(n_word=fmt.n_word)
            elif how == 'used':
                warm(x)
            if how.startswith('resigned'):
                # born with the OTHER signedness, re-signed by resize (by keyword / by dtype string), then written element by element
                x = mk(np.zeros(len(ds)), Fmt(not fmt.signed, fmt.n_word, fmt.n_frac), rounding, overflow)
                if how == 'resigned_setitem':
                    x.resize(signed=fmt.signed)
                else:
                    x.resize(dtype=fmt.dtype)
                for i in range(len(ds)):
                    x[i] = vals[i]
            else:
                x.set_val(vals) if how != 'used' else x(vals)
            got, fl = codes(x), flags(x)
            acc.transitions += 3
        elif carrier == 'int':
            got, fl = [], (False, False, False)
            for d in ds:
                x = mk(d[0], fmt, rounding, overflow)
                got += codes(x)
                fl = tuple(a or b for a, b in zip(fl, flags(x)))
                acc.transitions += 1
        else:
            x = mk(vals, fmt, rounding, overflow)
            got = codes(x)
            fl = flags(x)
    except Exception as e:
        acc.violation('exception', dict(case, vals=case['vals'][:20]), 'array store raised %r' % (e,), {'part': part})
        return
    lo, hi = fmt.lo, fmt.hi
    any_out = False
    any_inexact = False
    for i, d in enumerate(ds):
        num, s = scaled(d, fmt.n_frac)
        inr = (lo << s) <= num <= (hi << s)
        if not inr:
            any_out = True
            continue
        acc.evaluations += 1
        c = got[i]
        rep = (num & ((1 << s) - 1)) == 0
        if not rep:
            acc.nontrivial += 1
            any_inexact = True
            if rounding == 'around' and 2 * (num & ((1 << s) - 1)) == (1 << s):
                acc.outcome('tie')
            acc.outcome('neg_inexact' if num < 0 else 'pos_inexact')
        else:
            acc.outcome('representable')
        err = relation(rounding, c, num, s)
        if err is None and rep and c != (num >> s):
            err = 'representable value not stored unchanged'
        if err is None and not (lo <= c <= hi):
            err = 'code outside the format'
        if err:
            acc.violation('relation', dict(case, vals=[list(d)], mono=False),
                          'fmt=%s mode=%s/%s v=%d/2^%d (scaled %d/2^%d): code %d: %s'
                          % (fmt.dtype, rounding, overflow, d[0], d[1], num, s, c, err),
                          {'part': part, 'rounding': rounding, 'overflow': overflow}, full=case)
            break
        acc.states.add((fmt, c))
    if not any_out and fl != (False, False, any_inexact):
        acc.violation('flags', dict(case, vals=case['vals'][:40]),
                      'fmt=%s mode=%s/%s in-range inputs: flags %s expected %s' % (fmt.dtype, rounding, overflow, fl, (False, False, any_inexact)),
                      {'part': part}, full=case)
    if mono:
        for i in range(1, len(got)):
            acc.evaluations += 1
            if got[i] < got[i - 1]:
                acc.violation('monotone', dict(case, vals=[list(ds[i - 1]), list(ds[i])]),
                              'fmt=%s mode=%s/%s v1=%d/2^%d <= v2=%d/2^%d but codes %d > %d'
                              % (fmt.dtype, rounding, overflow, ds[i - 1][0], ds[i - 1][1], ds[i][0], ds[i][1], got[i - 1], got[i]),
                              {'part': part, 'rounding': rounding}, full=case)
                break
        acc.outcome('mono_pairs', len(got) - 1)
    acc.dim('rounding', rounding, len(ds))
    acc.dim('overflow', overflow, len(ds))
    acc.sample(dict(case, vals=case['vals'][:3]))


def idempotence(acc, fmt, cs, part, scalar):
    arr = np.array([fmt.fvalue(c) for c in cs], dtype=np.float64)
    for (r, o) in MODES:
        case = {'part': part, 'fmt': list(fmt), 'mode': [r, o], 'codes': list(cs)}
        acc.evaluations += len(cs)
        acc.nontrivial += len(cs)
        acc.transitions += 1
        try:
            x = mk(arr, fmt, r, o)
            got = codes(x)
            fl = flags(x)
        except Exception as e:
            acc.violation('exception', case, 'raised %r' % (e,), {'part': part})
            continue
        if got != list(cs) or fl != (False, False, False):
            bad = [i for i in range(len(cs)) if got[i] != cs[i]]
            acc.violation('idempotence', dict(case, codes=[cs[bad[0]]] if bad else list(cs)[:40]),
                          'fmt=%s mode=%s/%s re-storing representable values: %s, flags %s'
                          % (fmt.dtype, r, o, 'code %d became %d' % (cs[bad[0]], got[bad[0]]) if bad else 'codes kept', fl),
                          {'part': part, 'rounding': r}, full=case)
        acc.outcome('idem_array', len(cs))
        if scalar:
            for c in cs:
                acc.evaluations += 2
                acc.transitions += 4
                try:
                    y = mk(fmt.fvalue(c), fmt, r, o)
                    y(y())                      # re-store own value by call
                    ok1 = codes(y) == [c] and flags(y) == (False, False, False)
                    y.set_val(y)                # assign itself
                    ok2 = codes(y) == [c] and flags(y) == (False, False, False)
                except Exception as e:
                    acc.violation('exception', dict(case, codes=[c], scalar=True), 'raised %r' % (e,), {'part': part})
                    continue
                if not (ok1 and ok2):
                    acc.violation('idempotence', dict(case, codes=[c], scalar=True),
                                  'fmt=%s mode=%s/%s x(x()) / x.set_val(x) on code %d gave %s flags %s'
                                  % (fmt.dtype, r, o, c, codes(y), flags(y)), {'part': part, 'route': 'self'}, full=case)
                acc.outcome('idem_self')


def run_shard(sh):
    reset_class_state()
    acc = Acc()
    part = sh['part']
    nw = sh['nw']
    if part == 'S':
        for nf in range(-8, nw + 9):
            fmt = Fmt(sh['signed'], nw, nf)
            ds = [qval(k, fmt) for k in al.quarter_sweep(fmt, 1)]          # sorted ascending
            inr = [qval(k, fmt) for k in range(4 * fmt.lo, 4 * fmt.hi + 1)]
            for r in ROUNDINGS:
                judge(acc, fmt, r, 'saturate', ds, 'S', True)
                judge(acc, fmt, r, 'wrap', inr, 'S', False)
                if nw <= 3:
                    judge(acc, fmt, r, 'saturate', ds, 'S', True, 'setitem')
                if nw <= 4:
                    for h in HISTS:
                        judge(acc, fmt, r, 'saturate', ds, 'S', True, 'hist:' + h)
                if nw <= 4:
                    for cr in ('fxp+3:ctor', 'fxp+5:equal', 'fxp+9:set_val', 'fxp+12:like()', 'fxp+20:ctor', 'fxp+11:setitem'):
                        judge(acc, fmt, r, 'saturate', ds, 'S', True, cr)
                if nw <= 5:
                    for cr in ('np:float32', 'np:float16', 'np:int8', 'np:int16', 'np:int32', 'np:uint8', 'np:uint16',
                               'fxp:equal', 'fxp:set_val', 'fxp:ctor', 'fxp:like()'):
                        judge(acc, fmt, r, 'saturate', ds, 'S', True, cr)
                if nf < 0:          # integer carriers take their own path through scaling when n_frac < 0
                    judge(acc, fmt, r, 'saturate', ds, 'S', True, 'iarr')
                    judge(acc, fmt, r, 'wrap', inr, 'S', False, 'iarr')
                    if nw <= 3:
                        judge(acc, fmt, r, 'saturate', ds, 'S', True, 'int')
    elif part == 'G':
        for nf in range(-8, nw + 9):
            fmt = Fmt(sh['signed'], nw, nf)
            ks = sorted({4 * c + off for c in al.code_alphabet(fmt, sh['seed']) + al.out_of_range_alphabet(fmt) for off in al.OFFSETS_Q})
            ds = []
            for k in ks:
                d = qval(k, fmt)
                if in_core(d, fmt):
                    ds.append(d)
                else:
                    acc.skipped += 1
            inr = [d for d in ds if (fmt.lo << scaled(d, fmt.n_frac)[1]) <= scaled(d, fmt.n_frac)[0] <= (fmt.hi << scaled(d, fmt.n_frac)[1])]
            if not ds:
                continue
            for r in ROUNDINGS:
                judge(acc, fmt, r, 'saturate', ds, 'G', True)
                if inr:
                    judge(acc, fmt, r, 'wrap', inr, 'G', False)
                if nf < 0:
                    judge(acc, fmt, r, 'saturate', ds, 'G', True, 'iarr')
                if nw in (8, 16, 32, 52):
                    for h in HISTS:
                        judge(acc, fmt, r, 'saturate', ds, 'G', True, 'hist:' + h)
                if nw in (8, 12, 16, 24, 32):
                    for cr in ('np:float32', 'np:float16', 'np:int8', 'np:int16', 'np:int32', 'np:uint16', 'fxp:equal', 'fxp:ctor'):
                        judge(acc, fmt, r, 'saturate', ds, 'G', True, cr)
            cs = [c for c in al.code_alphabet(fmt, sh['seed']) if in_core(qval(4 * c, fmt), fmt)]
            if cs:
                idempotence(acc, fmt, cs, 'GI', False)
    elif part == 'I':
        for nf in range(-8, nw + 9):
            fmt = Fmt(sh['signed'], nw, nf)
            idempotence(acc, fmt, list(range(fmt.lo, fmt.hi + 1)), 'I', sh['scalar'] and nf in (-1, 0, 1, nw, nw + 1))
    return acc


def replay(case):
    reset_class_state()
    acc = Acc()
    fmt = Fmt(*case['fmt'])
    r, o = case['mode']
    if 'codes' in case:
        # idempotence cases
        cs = case['codes']
        arr = np.array([fmt.fvalue(c) for c in cs], dtype=np.float64)
        try:
            if case.get('scalar'):
                y = mk(fmt.fvalue(cs[0]), fmt, r, o)
                y(y())
                y.set_val(y)
                if codes(y) != [cs[0]] or flags(y) != (False, False, False):
                    acc.violation('idempotence', case, 'self re-store gave %s flags %s' % (codes(y), flags(y)), {'part': case['part']})
            else:
                x = mk(arr, fmt, r, o)
                if codes(x) != list(cs) or flags(x) != (False, False, False):
                    acc.violation('idempotence', case, 'got %s flags %s' % (codes(x)[:8], flags(x)), {'part': case['part'], 'rounding': r})
        except Exception as e:
            acc.violation('exception', case, repr(e), {'part': case['part']})
    else:
        judge(acc, fmt, r, o, [tuple(d) for d in case['vals']], case['part'], case.get('mono', False), case.get('carrier', 'farr'))
    return acc.violations


def finish(merged, tier, seed):
    for oc in ('tie', 'neg_inexact', 'pos_inexact', 'representable', 'mono_pairs', 'idem_array', 'idem_self'):
        if merged['outcomes'].get(oc, 0) < 100:
            raise HarnessError('outcome %s under-exercised: %s' % (oc, merged['outcomes'].get(oc)))
    for r in ROUNDINGS:
        if merged['dims']['rounding'].get(r, 0) < 1000:
            raise HarnessError('rounding %s under-exercised' % r)
    for c in ('farr', 'iarr', 'int', 'setitem', 'np:float16', 'np:int16', 'np:uint8', 'fxp:equal', 'fxp:ctor', 'fxp:like()'):
        if merged['dims']['carrier'].get(c, 0) < 1000:
            raise HarnessError('carrier %s under-exercised' % c)
    return {}
