"""C04 - status flags and callbacks report exactly what happened, are sticky until reset(); arithmetic propagates inaccuracy.
E1 (single writes, array class vectors) + E2 (BFS over histories of writes / resets / resizes / config changes / copies)."""
import itertools
import numpy as np
from ..runner import Acc, HarnessError
from ..refmodel import Fmt, MODES, ROUNDINGS, OVERFLOWS, quantize, quantize_code, dy_float
from .. import alphabet as al
from ..common import carry, Fxp, fx, mk, codes, flags, fmt_of, Recorder, reset_class_state
from ..explore import bfs, Disabled
from .c01 import qval, in_core, _nw_list

ID = 'C04'
RULE = ('E1 cases = one write (format, modes, input[, element-class vector]) on an existing object with a recording callback; '
        'E2 cases = histories (event sequences) of writes by 3 routes + raw writes, reset, resize, config changes, deep copies, with '
        'derived results (x+y, x-y, x*y, x/y, x//y, x%y, y-x, sum, Fxp(x); and x op w with a flagged second operand) observed in every state. non-trivial = a write/history in '
        'which at least one flag changes or a status callback fires; distinct = distinct (format, modes, input) points resp. distinct '
        'canonical states reached')
ASSUMPTIONS = ['reference conditions: overflow <=> rounded > hi, underflow <=> rounded < lo, inaccuracy <=> stored*2^-n_frac != input',
               'constructor-internal stores are not "writes" (callbacks checked only on writes to existing objects)',
               'resize / config changes / copies: only stickiness is asserted (no flag lowered)']
STATUS_KEYS = ('extended_prec', 'inaccuracy', 'overflow', 'underflow')


def bounds(tier, seed):
    return {'a_single_writes': 'all formats n_word<=%d x 10 modes x every quarter-LSB input over 3x range, one scalar set_val each, '
                               'callback log compared; grid n_word in %s x boundary alphabet via arrays'
                               % (4 if tier == 'quick' else 6, 'quick list' if tier == 'quick' else '1..52'),
            'b_array_class_vectors': 'all 4+16+64 vectors over {exact, inexact, over, under} for lengths 1..3 x formats n_word<=3 x 10 modes',
            'bi_bigint_arrays': 'array writes of Python ints of up to 200 bits (some exact, some needing more than 64 bits after scaling) into 12 formats x 10 modes x 3 routes',
            'c_histories': 'BFS, 3 base formats x {scalar, array} roots, menu of 38 state-changing events (incl. writes whose value is an Fxp), depth %d with dedup and depth %d '
                           'without; 9 derived-result observations in every state' % ((4, 2) if tier == 'quick' else (6, 3)),
            'seed': seed}


def shards(tier, seed):
    out = []
    for nw in range(1, (4 if tier == 'quick' else 6) + 1):
        for signed in (True, False):
            for nfs in al.chunks(range(-8, nw + 9), 5):
                out.append({'part': 'a', 'signed': signed, 'nw': nw, 'nfs': nfs})
    for nw in _nw_list(tier):
        out.append({'part': 'ag', 'nw': nw, 'seed': seed})
    for nw in (1, 2, 3):
        for signed in (True, False):
            out.append({'part': 'b', 'signed': signed, 'nw': nw})
    out.append({'part': 'bi'})
    depth, depth_nd = (4, 2) if tier == 'quick' else (6, 3)
    for ri in range(len(ROOTS)):
        for first in range(N_FIRST):
            out.append({'part': 'c', 'root': ri, 'first': first, 'depth': depth, 'dedup': True})
        out.append({'part': 'c', 'root': ri, 'first': None, 'depth': depth_nd, 'dedup': False})
    return out


# ------------------------------------------------------------------------------------------ E1
def expected_log(eo, eu, ei):
    return sorted((['overflow'] if eo else []) + (['underflow'] if eu else []) + (['inaccuracy'] if ei else []) + ['change'])


W_CARRIERS = ('decstr', 'nd0str', 'lstr', 'tstr', 'ndstr', 'int', 'np.float32', 'np.int16', 'arr1.int16', 'list', 'ntuple', 'arr0.float64')
PRELUDES = ('flagged', 'flagged_reset', 'resized')


def single_write(acc, fmt, r, o, d, part, carrier='float', late=None):
    """one write of the value d (as `carrier`) into an existing object with a recording callback.
    late: the callback is registered only after a prelude on the live object (earlier flag-raising writes [+ reset] / a resize) -
    it must then be told about the judged write only"""
    rec = Recorder()
    case = {'part': part, 'fmt': list(fmt), 'mode': [r, o], 'val': list(d), 'carrier': carrier, 'late': late}
    v = dy_float(d) if carrier == 'float' else carry(d, carrier)
    if v is None:
        return
    ec, eo, eu, ei, _ = quantize(d, fmt, r, o)
    acc.evaluations += 1
    acc.transitions += 1
    if eo or eu or ei:
        acc.nontrivial += 1
    acc.outcome('flags=%d%d%d' % (eo, eu, ei))
    acc.dim('write_carrier', carrier)
    shape = np.shape(np.array(v)) if not isinstance(v, str) else ()
    zero = np.zeros(shape) if shape else 0
    sticky = (False, False, False)
    try:
        if late is None:
            x = mk(zero, fmt, r, o, callbacks=[rec])
        else:
            x = mk(zero, fmt, r, o)
            acc.dim('late_callback', late)
            if late in ('flagged', 'flagged_reset'):
                big = fmt.fvalue(fmt.hi) * 4 + 8.0 * 2.0 ** -fmt.n_frac
                x.set_val(zero + big)                                   # overflow (+ inaccuracy)
                x.set_val(zero - big - 0.25 * 2.0 ** -fmt.n_frac)       # underflow, inexact
                sticky = flags(x)
                if late == 'flagged_reset':
                    x.reset()
                    sticky = (False, False, False)
            else:
                x.resize(n_word=fmt.n_word + 3)
                x.set_val(zero + 0.25 * 2.0 ** -fmt.n_frac)             # inexact
                x.resize(n_word=fmt.n_word)
                sticky = flags(x)
            x.callbacks.append(rec)
            acc.transitions += 3
        del rec.log[:]
        x.set_val(v)
        fl = flags(x)
        log = sorted(rec.log)
    except Exception as e:
        acc.violation('exception', case, 'fmt=%s %s/%s v=%d/2^%d carrier=%s raised %r' % (fmt.dtype, r, o, d[0], d[1], carrier, e), {'part': part, 'carrier': carrier})
        return
    acc.states.add((fmt, fl))
    want = tuple(a or b for a, b in zip((eo, eu, ei), sticky))
    if fl != want:
        acc.violation('flags', case, 'fmt=%s %s/%s set_val(%d/2^%d as %s%s): flags %s expected %s' % (fmt.dtype, r, o, d[0], d[1], carrier,
                      '' if late is None else ', after ' + late, fl, want), {'part': part, 'carrier': carrier, 'late': late})
    elif log != expected_log(eo, eu, ei):
        acc.violation('callbacks', case, 'fmt=%s %s/%s set_val(%d/2^%d as %s%s): callbacks %s expected %s'
                      % (fmt.dtype, r, o, d[0], d[1], carrier, '' if late is None else ', callback registered after ' + late, log, expected_log(eo, eu, ei)),
                      {'part': part, 'carrier': carrier, 'late': late})
    acc.sample(case, 1)


def array_write(acc, fmt, r, o, ds, part, route='set_val'):
    rec = Recorder()
    case = {'part': part, 'fmt': list(fmt), 'mode': [r, o], 'vals': [list(d) for d in ds], 'route': route}
    q = [quantize(d, fmt, r, o) for d in ds]
    eo, eu, ei = any(e[1] for e in q), any(e[2] for e in q), any(e[3] for e in q)
    acc.evaluations += 1
    acc.transitions += 1
    if eo or eu or ei:
        acc.nontrivial += 1
    acc.outcome('flags=%d%d%d' % (eo, eu, ei))
    vals = np.array([dy_float(d) for d in ds])
    try:
        x = mk(np.zeros(len(ds)), fmt, r, o, callbacks=[rec])
        del rec.log[:]
        if route == 'set_val':
            x.set_val(vals)
        elif route == 'call':
            x(vals)
        else:
            x[:] = vals
        fl = flags(x)
        log = sorted(rec.log)
        got = codes(x)
    except Exception as e:
        acc.violation('exception', dict(case, vals=case['vals'][:20]), 'fmt=%s %s/%s array write raised %r' % (fmt.dtype, r, o, e), {'part': part})
        return
    if fl != (eo, eu, ei) or got != [e[0] for e in q]:
        acc.violation('flags', dict(case, vals=case['vals'][:40]), 'fmt=%s %s/%s array %s of %d elements: flags %s expected %s%s'
                      % (fmt.dtype, r, o, route, len(ds), fl, (eo, eu, ei), '' if got == [e[0] for e in q] else ' (codes differ too)'),
                      {'part': part}, full=case)
    elif log != expected_log(eo, eu, ei):
        acc.violation('callbacks', dict(case, vals=case['vals'][:40]), 'fmt=%s %s/%s array write: callbacks %s expected %s'
                      % (fmt.dtype, r, o, log, expected_log(eo, eu, ei)), {'part': part}, full=case)
    acc.sample(dict(case, vals=case['vals'][:4]), 1)


def bigint_write(acc, fmt, r, o, ints, route, part):
    """array write of Python integers some of which need more than 64 bits after scaling: flags and callbacks as for any write"""
    rec = Recorder()
    case = {'part': part, 'bigint': True, 'fmt': list(fmt), 'mode': [r, o], 'ints': list(ints), 'route': route}
    q = [quantize((v, 0), fmt, r, o) for v in ints]
    eo, eu, ei = any(e[1] for e in q), any(e[2] for e in q), any(e[3] for e in q)
    acc.evaluations += 1
    acc.transitions += 1
    acc.nontrivial += 1
    acc.outcome('flags=%d%d%d' % (eo, eu, ei))
    try:
        x = mk([0] * len(ints), fmt, r, o, callbacks=[rec])
        del rec.log[:]
        if route == 'set_val':
            x.set_val(list(ints))
        elif route == 'call':
            x(np.array(ints, dtype=object))
        else:
            x[:] = list(ints)
        fl, log, got = flags(x), sorted(rec.log), codes(x)
    except Exception as e:
        acc.violation('exception', case, 'fmt=%s %s/%s big-int array write %s raised %r' % (fmt.dtype, r, o, [v.bit_length() for v in ints], e),
                      {'part': part, 'route': route})
        return
    if fl != (eo, eu, ei) or got != [e[0] for e in q]:
        acc.violation('flags', case, 'fmt=%s %s/%s array write of ints with %s bits by %s: flags %s codes %s, expected %s %s'
                      % (fmt.dtype, r, o, [v.bit_length() for v in ints], route, fl, got, (eo, eu, ei), [e[0] for e in q]), {'part': part, 'route': route})
    elif log != expected_log(eo, eu, ei):
        acc.violation('callbacks', case, 'fmt=%s %s/%s big-int array write: callbacks %s expected %s' % (fmt.dtype, r, o, log, expected_log(eo, eu, ei)),
                      {'part': part, 'route': route})


def class_values(fmt):
    """one representative per element class (quarter-LSB units k -> value k/4*LSB)"""
    return {'exact': qval(4 * fmt.hi, fmt), 'inexact': qval(4 * fmt.lo + 1, fmt), 'over': qval(4 * fmt.hi + 4, fmt),
            'under': qval(4 * fmt.lo - 4, fmt)}


# ------------------------------------------------------------------------------------------ E2
BASE_FORMATS = (Fmt(True, 4, 1), Fmt(False, 3, 0), Fmt(True, 6, 3))
ROOTS = [(f, kind) for f in BASE_FORMATS for kind in ('scalar', 'array')]
WRITE_CLASSES = ('exact', 'inexact', 'over', 'under', 'over_frac', 'under_frac')
WRITE_ROUTES = ('set_val', 'call', 'setitem')


def write_value(fmt, cls):
    k = {'exact': 4 * fmt.hi, 'inexact': 4 * fmt.lo + 1, 'over': 4 * fmt.hi + 4, 'under': 4 * fmt.lo - 4,
         'over_frac': 4 * fmt.hi + 3, 'under_frac': 4 * fmt.lo - 3}[cls]
    return qval(k, fmt)


def menu():
    evs = []
    for c in WRITE_CLASSES:
        for rt in WRITE_ROUTES:
            evs.append(('w', c, rt))
    for c in ('hi', 'hi+1', 'lo-1', 'hi+.5', 'lo-.5'):
        evs.append(('raw', c))
    # the written value is itself a fixed-point object: same format / finer format, clean / carrying inaccuracy
    for rt in WRITE_ROUTES:
        for kind in ('same', 'finer', 'same_flagged'):
            evs.append(('wfxp', kind, rt))
    evs.append(('reset',))
    for k in ('same', 'wider', 'narrower'):
        evs.append(('resize', k))
    evs += [('cfg', 'rounding', 'around'), ('cfg', 'rounding', 'floor'), ('cfg', 'overflow', 'wrap'), ('cfg', 'overflow', 'saturate')]
    evs.append(('copy',))
    return evs


MENU = menu()
N_FIRST = len(MENU)


class St:
    __slots__ = ('x', 'rec', 'kind', 'fmt', 'rounding', 'overflow', 'mflags', 'errors', 'changed')


class System:
    """one object x under a history of events; the model tracks (format, modes, expected flags)"""

    def __init__(self, root):
        self.root = root
        self._derived = set()

    def reset(self):
        reset_class_state()

    def initial(self):
        return [()]

    def build(self, h):
        fmt, kind = self.root
        st = St()
        st.kind = kind
        st.fmt, st.rounding, st.overflow = fmt, 'trunc', 'saturate'
        st.rec = Recorder()
        st.x = mk(0 if kind == 'scalar' else [0, 0], fmt, 'trunc', 'saturate', callbacks=[st.rec])
        st.mflags = (False, False, False)
        st.errors = []
        st.changed = False
        for i, ev in enumerate(h):
            self.step(st, ev, last=(i == len(h) - 1))
        return st

    def events(self, st):
        return MENU

    def step(self, st, ev, last):
        x = st.x
        before = flags(x)
        errs = []
        if ev[0] in ('w', 'raw'):
            fmt = st.fmt
            if ev[0] == 'w':
                d = write_value(fmt, ev[1])
                v = dy_float(d)
                ec, eo, eu, ei, _ = quantize(d, fmt, st.rounding, st.overflow)
                route = ev[2]
            else:
                if ev[1] in ('hi+.5', 'lo-.5'):        # fractional raw value: rounded by the configured rule first
                    c2 = 2 * fmt.hi + 1 if ev[1] == 'hi+.5' else 2 * fmt.lo - 1
                    v = c2 / 2.0
                    ec, eo, eu, ei, _ = quantize_code(c2, 1, fmt, st.rounding, st.overflow)
                else:
                    code = {'hi': fmt.hi, 'hi+1': fmt.hi + 1, 'lo-1': fmt.lo - 1}[ev[1]]
                    v = code
                    ec, eo, eu, ei, _ = quantize_code(code, 0, fmt, st.rounding, st.overflow)
                route = 'raw'
            del st.rec.log[:]
            if route == 'set_val':
                x.set_val(v if st.kind == 'scalar' else [v, 0])
            elif route == 'call':
                x(v if st.kind == 'scalar' else [v, 0])
            elif route == 'setitem':
                x[() if st.kind == 'scalar' else 0] = v
            else:
                x.set_val(v if st.kind == 'scalar' else [v, 0], raw=True)
            st.mflags = (st.mflags[0] or eo, st.mflags[1] or eu, st.mflags[2] or ei)
            if last:
                log = sorted(st.rec.log)
                if log != expected_log(eo, eu, ei):
                    errs.append(('callbacks', 'event %r: callbacks %s expected %s' % (ev, log, expected_log(eo, eu, ei))))
                if codes(x)[0] != ec:
                    errs.append(('code', 'event %r stored %d expected %d' % (ev, codes(x)[0], ec)))
        elif ev[0] == 'wfxp':
            fmt = st.fmt
            kind, route = ev[1], ev[2]
            if kind == 'finer':
                sf = Fmt(fmt.signed, fmt.n_word + 2, fmt.n_frac + 2)
                src = Fxp(4 * fmt.hi + 1, sf.signed, sf.n_word, sf.n_frac, raw=True)          # hi + 1/4 LSB of the destination
                d = qval(4 * fmt.hi + 1, fmt)
            else:
                src = Fxp(fmt.hi - 1 if fmt.hi > 0 else fmt.hi, fmt.signed, fmt.n_word, fmt.n_frac, raw=True)
                d = qval(4 * (fmt.hi - 1 if fmt.hi > 0 else fmt.hi), fmt)
            if kind == 'same_flagged':
                src.status['inaccuracy'] = True          # as left by an earlier inexact store into src
            ec, eo, eu, ei, _ = quantize(d, fmt, st.rounding, st.overflow)
            ei = ei or kind == 'same_flagged'
            del st.rec.log[:]
            if st.kind == 'scalar':
                if route == 'set_val':
                    x.set_val(src)
                elif route == 'call':
                    x(src)
                else:
                    x[()] = src
            else:
                src2 = Fxp([codes(src)[0], 0], src.signed, src.n_word, src.n_frac, raw=True)      # keeps the destination's shape
                if kind == 'same_flagged':
                    src2.status['inaccuracy'] = True
                if route == 'set_val':
                    x.set_val(src2)
                elif route == 'call':
                    x(src2)
                else:
                    x[0] = src
            st.mflags = (st.mflags[0] or eo, st.mflags[1] or eu, st.mflags[2] or ei)
            if last:
                log = sorted(st.rec.log)
                want = expected_log(eo, eu, ei and kind != 'same_flagged')
                if log.count('change') != 1 or [l for l in log if l != 'inaccuracy'] != [l for l in want if l != 'inaccuracy'] or \
                        (kind != 'same_flagged' and log != want):
                    errs.append(('callbacks', 'event %r: callbacks %s expected %s' % (ev, log, want)))
                if codes(x)[0] != ec:
                    errs.append(('code', 'event %r stored %d expected %d' % (ev, codes(x)[0], ec)))
        elif ev[0] == 'reset':
            x.reset()
            st.mflags = (False, False, False)
            if last:
                s = x.status
                if sorted(s.keys()) != list(STATUS_KEYS) or s.get('extended_prec') is not False:
                    errs.append(('reset_record', 'after reset() the status record is %r' % (s,)))
        elif ev[0] == 'resize':
            f = st.fmt
            if ev[1] == 'same':
                nf = f
            elif ev[1] == 'wider':
                nf = Fmt(f.signed, f.n_word + 2, f.n_frac + 1)
            else:
                nf = Fmt(f.signed, f.n_word - 1, f.n_frac - 1)
            if not (2 <= nf.n_word <= 9 and nf.n_frac >= 0):
                raise Disabled()
            x.resize(nf.signed, nf.n_word, nf.n_frac)
            st.fmt = nf
            after = flags(x)
            if last and any(b and not a for a, b in zip(after, st.mflags)):
                errs.append(('sticky', 'resize %s lowered a flag: %s -> %s' % (ev[1], before, after)))
            st.mflags = tuple(a or b for a, b in zip(after, st.mflags))      # what a re-store may raise is C10's subject
        elif ev[0] == 'cfg':
            if ev[1] == 'rounding':
                x.rounding = ev[2]
                st.rounding = ev[2]
            else:
                x.config.overflow = ev[2]
                st.overflow = ev[2]
        elif ev[0] == 'copy':
            y = x.deepcopy()
            st.x = y
            st.rec = y.callbacks[0]
        else:
            raise ValueError(ev)
        if last:
            st.errors = errs
            st.changed = flags(st.x) != before or (ev[0] in ('w', 'raw', 'wfxp') and len(st.rec.log) > 1)

    def canon(self, st):
        x = st.x
        return (self.root[0], st.kind, fmt_of(x), x.config.rounding, x.config.overflow, flags(x), tuple(codes(x)),
                tuple(sorted(x.status.keys())))

    def check(self, st, h, acc):
        x = st.x
        case = {'part': 'c', 'root': [list(self.root[0]), self.root[1]], 'history': [list(e) for e in h]}
        if st.changed:
            acc.nontrivial += 1
        for kind, msg in st.errors:
            acc.violation(kind, case, 'history %s: %s' % ([list(e) for e in h], msg), {'part': 'c', 'event': h[-1][0] if h else None})
        fl = flags(x)
        if fl != st.mflags:
            acc.violation('sticky_flags', case, 'history %s: flags %s, expected running OR since last reset %s'
                          % ([list(e) for e in h], fl, st.mflags), {'part': 'c', 'event': h[-1][0] if h else None})
        if fmt_of(x) != st.fmt or x.config.rounding != st.rounding or x.config.overflow != st.overflow:
            acc.violation('model_sync', case, 'object %s %s/%s vs model %s %s/%s' % (x.dtype, x.config.rounding, x.config.overflow,
                                                                                     st.fmt.dtype, st.rounding, st.overflow), {'part': 'c'})
        if 'extended_prec' not in x.status:
            acc.violation('reset_record', case, 'status record lost extended_prec: %r' % (x.status,), {'part': 'c'})
        # derived results observed in this state (they depend on the canonical state only: once per canonical state)
        k = self.canon(st)
        if k not in self._derived:
            self._derived.add(k)
            self.derive(st, h, acc, case)
        acc.sample(case, 1)

    def derive(self, st, h, acc, case):
        x = st.x
        inacc = bool(x.status['inaccuracy'])
        y = Fxp(1.0, True, 4, 1)                      # exact operand without flags
        ops = [('x+y', lambda: x + y), ('x-y', lambda: x - y), ('y-x', lambda: y - x), ('x*y', lambda: x * y), ('x/y', lambda: x / y),
               ('x//y', lambda: x // y), ('x%y', lambda: x % y), ('sum', lambda: np.sum(x) if st.kind == 'array' else fx.add(x, y)),
               ('Fxp(x)', lambda: Fxp(x))]
        before = flags(x)
        for name, f in ops:
            acc.transitions += 1
            try:
                z = f()
            except Exception as e:
                acc.violation('exception', dict(case, derive=name), 'history %s: %s raised %r' % (case['history'], name, e),
                              {'part': 'c', 'derive': name})
                continue
            if inacc and not z.status['inaccuracy']:
                acc.violation('propagation', dict(case, derive=name), 'history %s: operand carries inaccuracy but %s does not'
                              % (case['history'], name), {'part': 'c', 'derive': name})
            acc.outcome('derived_inacc' if inacc else 'derived_clean')
        if flags(x) != before:
            acc.violation('operand_mutated', case, 'deriving results changed the operand flags %s -> %s' % (before, flags(x)), {'part': 'c'})
        # the flag must also travel from the SECOND operand, whatever x carries
        w = Fxp(0.3, True, 8, 2)                      # 0.3 is inexact in s8/2 -> w carries inaccuracy
        for name, f in (('x+w', lambda: x + w), ('x*w', lambda: x * w), ('x-w', lambda: x - w), ('x/w', lambda: x / w), ('x//w', lambda: x // w),
                        ('x%w', lambda: x % w)):
            acc.transitions += 1
            try:
                z = f()
            except Exception as e:
                acc.violation('exception', dict(case, derive=name), 'history %s: %s raised %r' % (case['history'], name, e), {'part': 'c', 'derive': name})
                continue
            if not z.status['inaccuracy']:
                acc.violation('propagation', dict(case, derive=name), 'history %s: second operand carries inaccuracy but %s does not'
                              % (case['history'], name), {'part': 'c', 'derive': name})
            acc.outcome('derived_from_second')
            if flags(x) != before or flags(w) != (False, False, True):
                acc.violation('operand_mutated', dict(case, derive=name), 'history %s: %s changed the flags of an operand: x %s -> %s, w %s'
                              % (case['history'], name, before, flags(x), flags(w)), {'part': 'c', 'derive': name, 'aspect': 'operand_flags'})
                before = flags(x)
        # the same through explicit destinations: out= (function form), numpy out=, config.op_out, out_like=
        shape = np.shape(x.val)

        def dest():
            return Fxp(np.zeros(shape) if shape else 0.0, True, 24, 8)
        xc = x.deepcopy()
        xc.config.op_out = dest()
        routes = (('add(out=)', lambda: fx.add(x, w, out=dest())), ('np.add(out=)', lambda: np.add(w, x, out=dest())),
                  ('mul(out=)', lambda: fx.mul(x, w, out=dest())), ('op_out', lambda: xc + w), ('add(out_like=)', lambda: fx.add(w, x, out_like=dest())),
                  ('sub(out=) clean', lambda: fx.sub(x, y, out=dest())))
        for name, f in routes:
            acc.transitions += 1
            try:
                z = f()
            except Exception as e:
                acc.violation('exception', dict(case, derive=name), 'history %s: %s raised %r' % (case['history'], name, e), {'part': 'c', 'derive': name})
                continue
            must = inacc if name.endswith('clean') else True
            if must and not z.status['inaccuracy']:
                acc.violation('propagation', dict(case, derive=name), 'history %s: an operand carries inaccuracy but the result of %s does not'
                              % (case['history'], name), {'part': 'c', 'derive': name})
            acc.outcome('derived_via_out')
            if flags(x) != before or flags(w) != (False, False, True) or flags(y) != (False, False, False):
                acc.violation('operand_mutated', dict(case, derive=name), 'history %s: %s changed the flags of an operand: x %s -> %s, w %s, y %s'
                              % (case['history'], name, before, flags(x), flags(w), flags(y)), {'part': 'c', 'derive': name, 'aspect': 'operand_flags'})
                before = flags(x)


# ------------------------------------------------------------------------------------------ driver
def run_shard(sh):
    reset_class_state()
    acc = Acc()
    part = sh['part']
    if part == 'a':
        for nf in sh['nfs']:
            fmt = Fmt(sh['signed'], sh['nw'], nf)
            for k in al.quarter_sweep(fmt, 1):
                d = qval(k, fmt)
                for (r, o) in MODES:
                    single_write(acc, fmt, r, o, d, 'a')
                    if sh['nw'] <= 3 and nf in (-1, 0, 1, sh['nw']):
                        for cr in W_CARRIERS:
                            single_write(acc, fmt, r, o, d, 'a', cr)
                        for late in PRELUDES:
                            single_write(acc, fmt, r, o, d, 'a', 'float', late)
                        single_write(acc, fmt, r, o, d, 'a', 'decstr', 'flagged')
    elif part == 'ag':
        nw = sh['nw']
        for signed in (True, False):
            for nf in range(-8, nw + 9):
                fmt = Fmt(signed, nw, nf)
                inr, ov, un = [], [], []
                for c in al.code_alphabet(fmt, sh['seed']):
                    for off in al.OFFSETS_Q:
                        d = qval(4 * c + off, fmt)
                        if in_core(d, fmt):
                            inr.append(d)
                for c in al.out_of_range_alphabet(fmt):
                    d = qval(4 * c, fmt)
                    if in_core(d, fmt):
                        (ov if c > fmt.hi else un).append(d)
                exact = [d for d in inr if quantize(d, fmt, 'floor', 'saturate')[3] is False and not quantize(d, fmt, 'floor', 'saturate')[1]
                         and not quantize(d, fmt, 'floor', 'saturate')[2]]
                for (r, o) in MODES:
                    if exact:
                        array_write(acc, fmt, r, o, exact, 'ag')                     # nothing may be flagged
                    if inr:
                        array_write(acc, fmt, r, o, inr, 'ag', 'call')
                    if exact and ov:
                        array_write(acc, fmt, r, o, exact[:8] + ov[:1], 'ag', 'setitem')       # exactly one element over
                    if exact and un:
                        array_write(acc, fmt, r, o, un[:1] + exact[:8], 'ag')                  # exactly one element under
    elif part == 'b':
        nw = sh['nw']
        for nf in range(-8, nw + 9):
            fmt = Fmt(sh['signed'], nw, nf)
            cv = class_values(fmt)
            names = list(cv)
            for n in (1, 2, 3):
                for vec in itertools.product(names, repeat=n):
                    ds = [cv[c] for c in vec]
                    for (r, o) in MODES:
                        array_write(acc, fmt, r, o, ds, 'b', ('set_val', 'call', 'setitem')[n - 1])
    elif part == 'bi':
        for signed in (True, False):
            for nw, nf in ((4, 0), (8, 2), (16, 8), (32, 16), (52, 0), (33, 33)):
                fmt = Fmt(signed, nw, nf)
                ex = fmt.hi >> max(nf, 0) if nf >= 0 else fmt.hi        # an integer that is stored exactly
                vecs = [[2 ** 70, ex], [ex, 2 ** 70], [-2 ** 70, 0, 2 ** 70], [ex, 2 ** 63], [2 ** 62, ex], [-2 ** 63 - 1, ex], [ex, 0], [2 ** 64, 2 ** 64],
                        [2 ** 200 + 1, -2 ** 200]]
                for ints in vecs:
                    if not signed and any(v < 0 for v in ints) and False:
                        continue
                    for (r, o) in MODES:
                        for route in ('set_val', 'call', 'setitem'):
                            bigint_write(acc, fmt, r, o, ints, route, 'bi')
    elif part == 'c':
        system = System(ROOTS[sh['root']])
        roots = [()] if sh['first'] is None else [(MENU[sh['first']],)]
        depth = sh['depth'] if sh['first'] is None else sh['depth'] - 1
        n, t, deep = bfs(system, acc, depth, dedup=sh['dedup'], roots=roots)
        acc.extra['bfs_max_depth_%s' % ('dedup' if sh['dedup'] else 'nodedup')] = 0
        acc.extra.setdefault('depths', set()).add((sh['dedup'], deep + (0 if sh['first'] is None else 1)))
    return acc


def replay(case):
    reset_class_state()
    acc = Acc()
    part = case['part']
    if part == 'c':
        root = (Fmt(*case['root'][0]), case['root'][1])
        system = System(root)
        h = tuple(tuple(e) for e in case['history'])
        try:
            st = system.build(h)
        except Disabled:
            return []
        system.check(st, h, acc)
    elif case.get('bigint'):
        bigint_write(acc, Fmt(*case['fmt']), case['mode'][0], case['mode'][1], case['ints'], case['route'], part)
    elif 'vals' in case:
        array_write(acc, Fmt(*case['fmt']), case['mode'][0], case['mode'][1], [tuple(d) for d in case['vals']], part, case.get('route', 'set_val'))
    else:
        single_write(acc, Fmt(*case['fmt']), case['mode'][0], case['mode'][1], tuple(case['val']), part, case.get('carrier', 'float'), case.get('late'))
    return acc.violations


def finish(merged, tier, seed):
    oc = merged['outcomes']
    for k in ('flags=000', 'flags=001', 'flags=101', 'flags=011', 'new_state', 'revisit', 'derived_inacc', 'derived_clean'):
        if oc.get(k, 0) < 20:
            raise HarnessError('outcome %s under-exercised: %s' % (k, oc.get(k)))
    if oc.get('flags=110', 0) + oc.get('flags=111', 0) < 20:
        raise HarnessError('no array write with both overflow and underflow')
    return {'bfs_depths_completed': sorted(merged['extra'].get('depths', []))}
