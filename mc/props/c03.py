"""C03 - wrap overflow is exact two's-complement modular arithmetic (E1)."""
import numpy as np
from ..runner import Acc, HarnessError
from ..refmodel import Fmt, ROUNDINGS, quantize, quantize_code, dy_float, scaled, overflow_code
from .. import alphabet as al
from ..common import warm, mk, codes, flags, reset_class_state, Fxp, store, ROUTES, carry
from .c01 import qval, in_core, _nw_list

ID = 'C03'
RULE = ('cases = (format, rounding, input[, shift multiple][, route]) under overflow=wrap; judged against the unique in-range integer '
        'congruent to the rounded input mod 2^n_word, and (oracle-free) by equality of the codes of v and v+m*2^(n_word-n_frac); '
        'register cases = (format, op, code pair) with sizing same. non-trivial = rounded input outside the range (a wrap happened) '
        'or a shifted copy; distinct by construction')
ASSUMPTIONS = ['reference wrap = ((r - lo) mod 2^n_word) + lo on Python ints', 'inputs exact doubles or Python ints']

SHIFTS = (1, -1, 2, -2, 3, -3, 1024, -1024)
WIDE = al.WIDE


def bounds(tier, seed):
    return {'a_small_scope': 'all formats n_word<=%d x 5 roundings x every quarter-LSB input over 5x the range (float64 array); '
                             'scalar carriers/routes on n_word<=%d' % (6 if tier == 'quick' else 8, 2 if tier == 'quick' else 3),
            'b_grid': 'formats n_word in %s x 5 roundings x (B u X) x 7 offsets (core domain)' % ('quick list' if tier == 'quick' else '1..52'),
            'c_shift_invariance': 'every input of a/b also stored as v + m*2^(n_word-n_frac), m in %s (when inside the core domain)' % (SHIFTS,),
            'd_wide': 'n_word in %s x n_frac in {0,1,n/2,n-1,n} x signed/unsigned x Python-int raw codes and integer values: B u X, '
                      'multiples of the modulus +-{0,1}, all-ones words of length n-1,n,n+1,2n,4n; ctor / set_val / indexed; scalar and '
                      'object-array carriers' % (WIDE,),
            'h_interleaved': 'one process visiting signed n / unsigned n-1 / unsigned n / signed n+1 formats (n in 2..12,16,31..33 and 63..66,128) forward then '
                             'backward with boundary inputs: exposes state kept between calls',
            'e_register': 'x op y, op in {+,-,*}, overflow=wrap, sizing=same: all code pairs n_word<=%d (n_frac 0 and mid), boundary pairs '
                          'for n_word in {8,16,32,63,64,65}; results stored into explicit wrap registers of n, n+1 and 2n+1 bits via out=, config.op_out and numpy out=' % (4 if tier == 'quick' else 5),
            'seed': seed}


def shards(tier, seed):
    out = []
    k = 6 if tier == 'quick' else 8
    for nw in range(1, k + 1):
        for signed in (True, False):
            out.append({'part': 'a', 'signed': signed, 'nw': nw})
    for nw in range(1, (2 if tier == 'quick' else 3) + 1):
        for signed in (True, False):
            out.append({'part': 'as', 'signed': signed, 'nw': nw})
    for nw in _nw_list(tier):
        for signed in (True, False):
            out.append({'part': 'b', 'signed': signed, 'nw': nw, 'seed': seed})
    for nw in WIDE:
        for signed in (True, False):
            out.append({'part': 'd', 'signed': signed, 'nw': nw, 'seed': seed})
    out.append({'part': 'h', 'nw': 0, 'words': list(range(2, 13)) + [16, 31, 32, 33]})
    out.append({'part': 'h', 'nw': 0, 'words': [63, 64, 65, 66, 128]})
    for nw in range(1, (4 if tier == 'quick' else 5) + 1):
        out.append({'part': 'e', 'nw': nw})
    for nw in (8, 16, 32, 63, 64, 65):
        out.append({'part': 'eb', 'nw': nw, 'seed': seed})
    return out


HISTS = ('copy_resized', 'copy_resized64', 'view_resized', 'resized_back', 'used', 'resigned_setitem', 'resigned_dtype_setitem')


def judge_array(acc, fmt, rounding, ds, part, shift_inv=True, hist=None):
    """hist: the destination is a live object with a history (a shallow copy / view of it was widened, it was wider itself, it was read
    and operated on) and the values are stored into it with set_val"""
    case = {'part': part, 'fmt': list(fmt), 'rounding': rounding, 'vals': [list(d) for d in ds], 'hist': hist}
    exp = [quantize(d, fmt, rounding, 'wrap') for d in ds]
    acc.evaluations += len(ds)
    acc.transitions += 1
    acc.nontrivial += sum(1 for e in exp if e[1] or e[2])
    acc.outcome('wrap_from_above', sum(1 for e in exp if e[1]))
    acc.outcome('wrap_from_below', sum(1 for e in exp if e[2]))
    acc.outcome('in_range', sum(1 for e in exp if not e[1] and not e[2]))
    acc.dim('rounding', rounding, len(ds))
    try:
        if hist is None:
            x = mk(np.array([dy_float(d) for d in ds], dtype=np.float64), fmt, rounding, 'wrap')
        else:
            x = mk(np.zeros(len(ds)), fmt, rounding, 'wrap')
            if hist == 'copy_resized':
                y = x.copy()
                y.resize(n_word=fmt.n_word + 8)
            elif hist == 'copy_resized64':
                y = x.copy()
                y.resize(n_word=64)
            elif hist == 'view_resized':
                y = x[0:1]
                y.resize(n_word=fmt.n_word + 8)
                y.set_val(0, raw=True, index=0)
            elif hist == 'resized_back':
                x.resize(n_word=fmt.n_word + 8)
                x.resize(n_word=fmt.n_word)
            else:
                warm(x)
            if hist.startswith('resigned') and len(ds) > 48:
                ds = ds[:: len(ds) // 48 + 1] + [ds[-1]]
                exp = [quantize(d, fmt, rounding, 'wrap') for d in ds]
            if hist.startswith('resigned'):
                # born with the OTHER signedness, re-signed by resize (by keyword / by dtype string), then written element by element
                x = mk(np.zeros(len(ds)), Fmt(not fmt.signed, fmt.n_word, fmt.n_frac), rounding, 'wrap')
                if hist == 'resigned_setitem':
                    x.resize(signed=fmt.signed)
                else:
                    x.resize(dtype=fmt.dtype)
                for i, d in enumerate(ds):
                    x[i] = dy_float(d)
            else:
                x.set_val(np.array([dy_float(d) for d in ds], dtype=np.float64))
            acc.dim('history', hist, len(ds))
            acc.transitions += 3
        got = codes(x)
        fl = flags(x)
    except Exception as e:
        acc.violation('exception', dict(case, vals=case['vals'][:20]), 'array store raised %r' % (e,), {'part': part})
        return
    expc = [e[0] for e in exp]
    for c in set(expc):
        acc.states.add((fmt, c))
    if got != expc:
        i = [j for j in range(len(ds)) if got[j] != expc[j]][0]
        acc.violation('code', dict(case, vals=[list(ds[i])]),
                      'fmt=%s rounding=%s wrap v=%d/2^%d: stored %d, expected %d (rounded %d)'
                      % (fmt.dtype, rounding, ds[i][0], ds[i][1], got[i], expc[i], exp[i][4]), {'part': part, 'rounding': rounding}, full=case)
    ef = (any(e[1] for e in exp), any(e[2] for e in exp))
    if fl[:2] != ef:
        acc.violation('flags', dict(case, vals=case['vals'][:40]), 'fmt=%s rounding=%s wrap: overflow/underflow flags %s expected %s'
                      % (fmt.dtype, rounding, fl[:2], ef), {'part': part}, full=case)
    acc.sample(dict(case, vals=case['vals'][:3]))
    if not shift_inv:
        return
    # oracle-free: v and v + m * 2^(n_word - n_frac) must store the same code
    p = fmt.n_word - fmt.n_frac           # period = 2^p
    for m in SHIFTS:
        sh, keep = shifted_inputs(fmt, rounding, ds, m)
        if not sh:
            acc.skipped += len(ds)
            continue
        acc.skipped += len(ds) - len(sh)
        acc.evaluations += len(sh)
        acc.nontrivial += len(sh)
        acc.transitions += 1
        acc.outcome('shifted', len(sh))
        try:
            y = mk(np.array([dy_float(d) for d in sh], dtype=np.float64), fmt, rounding, 'wrap')
            g2 = codes(y)
        except Exception as e:
            acc.violation('exception', dict(case, vals=[list(d) for d in sh[:20]]), 'shifted store raised %r' % (e,), {'part': part})
            continue
        for j, i in enumerate(keep):
            if g2[j] != got[i]:
                acc.violation('shift', {'part': part + '-shift', 'fmt': list(fmt), 'rounding': rounding, 'vals': [list(ds[i])], 'm': m},
                              'fmt=%s rounding=%s wrap: v=%d/2^%d stores %d but v%+d*2^%d stores %d'
                              % (fmt.dtype, rounding, ds[i][0], ds[i][1], got[i], m, p, g2[j]), {'part': part, 'rounding': rounding},
                              full={'part': part + '-shift', 'fmt': list(fmt), 'rounding': rounding, 'vals': [list(d) for d in ds], 'm': m})
                break


FXP_ROUTES = ('ctor', 'call', 'set_val', 'equal', 'setitem', 'like=', 'like()')


def judge_fxp_source(acc, fmt, rounding, sfmt, cs, route, part):
    """the value arrives as another fixed-point object (format sfmt, codes cs) and is stored into a wrap destination"""
    case = {'part': part, 'fmt': list(fmt), 'rounding': rounding, 'src': list(sfmt), 'codes': list(cs), 'route': route, 'fxp_source': True}
    ds = [(c, sfmt.n_frac) if sfmt.n_frac >= 0 else (c << -sfmt.n_frac, 0) for c in cs]
    exp = [quantize(d, fmt, rounding, 'wrap') for d in ds]
    acc.evaluations += len(cs)
    acc.transitions += 1
    acc.nontrivial += sum(1 for e in exp if e[1] or e[2])
    acc.dim('fxp_source_route', route, len(cs))
    try:
        src = Fxp(np.array(cs, dtype=np.int64), sfmt.signed, sfmt.n_word, sfmt.n_frac, raw=True)
        t = mk(np.zeros(len(cs)), fmt, rounding, 'wrap')
        if route == 'ctor':
            x = Fxp(src, fmt.signed, fmt.n_word, fmt.n_frac, rounding=rounding, overflow='wrap')
        elif route == 'call':
            x = t
            x(src)
        elif route == 'set_val':
            x = t
            x.set_val(src)
        elif route == 'equal':
            x = t.equal(src)
        elif route == 'setitem':
            x = t
            x[:] = src
        elif route == 'like=':
            x = Fxp(src, like=t)
        else:
            x = src.like(t)
        got, fl = codes(x), flags(x)
    except Exception as e:
        acc.violation('exception', case, '%s -> %s wrap by %s raised %r' % (sfmt.dtype, fmt.dtype, route, e), {'part': part, 'route': route, 'aspect': 'fxp_source'})
        return
    expc = [e[0] for e in exp]
    ef = (any(e[1] for e in exp), any(e[2] for e in exp))
    if got != expc or fl[:2] != ef:
        i = [j for j in range(len(cs)) if got[j] != expc[j]]
        i = i[0] if i else 0
        acc.violation('code', case, 'fmt=%s rounding=%s wrap: %s code %d stored by %s as %d flags %s, expected %d %s'
                      % (fmt.dtype, rounding, sfmt.dtype, cs[i], route, got[i], fl[:2], expc[i], ef), {'part': part, 'route': route, 'aspect': 'fxp_source'})
    else:
        acc.outcome('fxp_source_ok')


def shifted_inputs(fmt, rounding, ds, m):
    """inputs v + m*2^(n_word-n_frac) that stay inside the core domain, and the indices of the inputs they belong to"""
    p = fmt.n_word - fmt.n_frac
    sh, keep = [], []
    for i, (num, s) in enumerate(ds):
        if p >= 0:
            d2 = (num + ((m << p) << s), s)
        else:
            s2 = max(s, -p)
            d2 = ((num << (s2 - s)) + (m << (s2 + p)), s2)
        if not in_core(d2, fmt):
            continue
        if rounding in ('trunc', 'fix'):
            # rounding toward zero commutes with an integer shift only if the shift does not move a
            # non-representable input across zero (the congruence is about the *rounded* input)
            n1, s1 = scaled((num, s), fmt.n_frac)
            n2, s2_ = scaled(d2, fmt.n_frac)
            if (n1 & ((1 << s1) - 1)) != 0 and (n1 < 0) != (n2 < 0):
                continue
        sh.append(d2)
        keep.append(i)
    return sh, keep


def judge_scalar(acc, fmt, rounding, d, carrier, route, part):
    v = carry(d, carrier)
    if v is None:
        return
    case = {'part': part, 'fmt': list(fmt), 'rounding': rounding, 'vals': [list(d)], 'carrier': carrier, 'route': route}
    ec, eo, eu, ei, _ = quantize(d, fmt, rounding, 'wrap')
    acc.evaluations += 1
    acc.transitions += 1
    acc.nontrivial += 1 if (eo or eu) else 0
    acc.dim('carrier', carrier)
    acc.dim('route', route)
    try:
        x, idx = store(route, v, fmt, rounding, 'wrap')
        cs = codes(x if idx is None else x[idx])
        fl = flags(x)
    except Exception as e:
        acc.violation('exception', case, 'fmt=%s %s wrap v=%d/2^%d carrier=%s route=%s raised %r' % (fmt.dtype, rounding, d[0], d[1], carrier, route, e),
                      {'part': part, 'carrier': carrier, 'route': route})
        return
    if any(c != ec for c in cs) or fl[:2] != (eo, eu):
        acc.violation('code', case, 'fmt=%s %s wrap v=%d/2^%d carrier=%s route=%s: stored %s flags %s, expected %d %s'
                      % (fmt.dtype, rounding, d[0], d[1], carrier, route, cs[:3], fl[:2], ec, (eo, eu)),
                      {'part': part, 'carrier': carrier, 'route': route})


SC_CARRIERS = ('int', 'float', 'np.float32', 'np.int16', 'np.int64', 'np.uint8', 'arr0.float64', 'arr1.int64', 'list', 'tuple', 'decstr')


# ------------------------------------------------------------------------------------------ wide
def wide_codes(fmt, seed):
    n = fmt.n_word
    s = set(al.code_alphabet(fmt, seed)) | set(al.out_of_range_alphabet(fmt))
    sp = fmt.span
    for k in (1, 2, 3, 7, 1 << 20):
        for dlt in (-1, 0, 1):
            s.add(k * sp + dlt)
            s.add(-k * sp + dlt)
    for ln in (n - 1, n, n + 1, 2 * n, 4 * n):
        s.add((1 << ln) - 1)
        s.add(-((1 << ln) - 1))
    for ln in range(n, 4 * n + 1, max(1, n // 3)):
        s.add(1 << ln)
        s.add(-(1 << ln))
    for b in al.seed_bits(seed, 'wide', 4 * n, 3):
        s.add(b)
        s.add(-b)
    return sorted(s)


def run_wide(acc, sh):
    nw = sh['nw']
    for nf in sorted({0, 1, nw // 2, nw - 1, nw}):
        fmt = Fmt(sh['signed'], nw, nf)
        cs = wide_codes(fmt, sh['seed'])
        for c in cs:
            exp = overflow_code(c, fmt, 'wrap')
            eo, eu = c > fmt.hi, c < fmt.lo
            # raw codes by three routes, scalar
            for route in ('ctor', 'set_val', 'setitem'):
                case = {'part': 'd', 'fmt': list(fmt), 'code': c, 'route': route, 'raw': True}
                acc.evaluations += 1
                acc.transitions += 1
                acc.nontrivial += 1 if (eo or eu) else 0
                acc.dim('route', route)
                try:
                    got, fl = wide_store(fmt, c, route, True)
                except Exception as e:
                    acc.violation('exception', case, 'fmt=%s wrap raw code %d route=%s raised %r' % (fmt.dtype, c, route, e),
                                  {'part': 'd', 'route': route, 'raw': True})
                    continue
                if got != exp or fl[:2] != (eo, eu):
                    acc.violation('code', case, 'fmt=%s wrap raw code %d route=%s: stored %d flags %s, expected %d %s'
                                  % (fmt.dtype, c, route, got, fl[:2], exp, (eo, eu)), {'part': 'd', 'route': route, 'raw': True})
                acc.states.add((fmt, exp))
            # integer VALUE c (only meaningful when c*2^n_frac is what gets wrapped)
            if nf <= nw:
                r = c << nf
                exp2 = overflow_code(r, fmt, 'wrap')
                case = {'part': 'd', 'fmt': list(fmt), 'code': c, 'route': 'ctor', 'raw': False}
                acc.evaluations += 1
                acc.transitions += 1
                acc.nontrivial += 1 if not (fmt.lo <= r <= fmt.hi) else 0
                try:
                    got, fl = wide_store(fmt, c, 'ctor', False)
                    if got != exp2 or fl[:2] != (r > fmt.hi, r < fmt.lo):
                        acc.violation('code', case, 'fmt=%s wrap integer value %d: stored %d flags %s, expected %d'
                                      % (fmt.dtype, c, got, fl[:2], exp2), {'part': 'd', 'raw': False})
                except Exception as e:
                    acc.violation('exception', case, 'fmt=%s wrap integer value %d raised %r' % (fmt.dtype, c, e), {'part': 'd', 'raw': False})
        # object-array carrier: all codes at once
        case = {'part': 'd-arr', 'fmt': list(fmt), 'codes': cs}
        acc.evaluations += len(cs)
        acc.transitions += 1
        try:
            x = mk(np.array(cs, dtype=object), fmt, 'trunc', 'wrap', raw=True)
            got = codes(x)
            expl = [overflow_code(c, fmt, 'wrap') for c in cs]
            if got != expl:
                i = [j for j in range(len(cs)) if got[j] != expl[j]][0]
                acc.violation('code', dict(case, codes=[cs[i]]), 'fmt=%s wrap raw object array: code %d stored %d expected %d'
                              % (fmt.dtype, cs[i], got[i], expl[i]), {'part': 'd', 'carrier': 'objarr'}, full=case)
        except Exception as e:
            acc.violation('exception', case, 'fmt=%s wrap raw object array raised %r' % (fmt.dtype, e), {'part': 'd', 'carrier': 'objarr'})
        wide_2d(acc, fmt, cs)
        acc.sample({'part': 'd', 'fmt': list(fmt), 'code': cs[-1], 'route': 'ctor', 'raw': True})


def wide_2d(acc, fmt, cs):
    # the same through 2-d object arrays that are not C-contiguous, and through arithmetic on transposed wide operands
    m = (len(cs) // 2) * 2
    L = np.array(cs[:m], dtype=object).reshape(2, -1)
    for layout in ('C', 'T', 'F', 'rev'):
        arr = {'C': L, 'T': np.ascontiguousarray(L.T).T, 'F': np.asfortranarray(L), 'rev': np.ascontiguousarray(L[::-1, ::-1])[::-1, ::-1]}[layout]
        case = {'part': 'd-arr2', 'fmt': list(fmt), 'codes': cs[:m], 'layout': layout}
        acc.evaluations += m
        acc.transitions += 2
        acc.dim('layout', layout, m)
        try:
            x = mk(arr, fmt, 'trunc', 'wrap', raw=True)
            expl = [overflow_code(c, fmt, 'wrap') for c in cs[:m]]
            if codes(x) != expl or tuple(np.shape(x.val)) != L.shape:
                acc.violation('code', case, 'fmt=%s wrap raw 2-d object array in layout %s: stored %s..., expected %s...' % (fmt.dtype, layout, codes(x)[:4], expl[:4]),
                              {'part': 'd', 'carrier': 'objarr2d', 'layout': layout})
                continue
            inr = [c if fmt.lo <= c <= fmt.hi else overflow_code(c, fmt, 'wrap') for c in cs[:m]]
            a = mk(np.array(inr, dtype=object).reshape(-1, 2), fmt, 'trunc', 'wrap', raw=True)
            z = a.T + a.T if layout == 'T' else (a + a)
            ez = [overflow_code(2 * c, fmt, 'wrap') for c in (np.array(inr, dtype=object).reshape(-1, 2).T.ravel().tolist() if layout == 'T' else inr)]
            zz = Fxp(z, like=a) if layout != 'rev' else mk(np.zeros(z.val.shape), fmt, 'trunc', 'wrap').equal(z)
            if codes(zz) != ez:
                acc.violation('code', case, 'fmt=%s wrap: sum of 2-d wide operands (%s) narrowed back: %s..., expected %s...' % (fmt.dtype, layout, codes(zz)[:4], ez[:4]),
                              {'part': 'd', 'carrier': 'sum2d', 'layout': layout})
        except Exception as e:
            acc.violation('exception', case, 'fmt=%s wrap raw 2-d object array (%s) raised %r' % (fmt.dtype, layout, e), {'part': 'd', 'carrier': 'objarr2d', 'layout': layout})


def wide_store(fmt, c, route, raw):
    if route == 'ctor':
        x = mk(c, fmt, 'trunc', 'wrap', raw=raw)
        return codes(x)[0], flags(x)
    if route == 'set_val':
        x = mk(0, fmt, 'trunc', 'wrap')
        x.set_val(c, raw=raw)
        return codes(x)[0], flags(x)
    x = mk([0, 0], fmt, 'trunc', 'wrap')
    x.set_val(c, raw=raw, index=1)
    return codes(x)[1], flags(x)


# ------------------------------------------------------------------------------------------ register behaviour
OPS = {'+': lambda a, b: a + b, '-': lambda a, b: a - b, '*': lambda a, b: a * b}


def register(acc, fmt, xs, ys, rounding, part):
    """x op y with sizing 'same', overflow wrap: result code == wrap(round(exact * 2^nf))"""
    xa = np.array(xs, dtype=object if fmt.n_word >= 64 else np.int64).reshape(-1, 1)
    ya = np.array(ys, dtype=object if fmt.n_word >= 64 else np.int64).reshape(1, -1)
    for opn, op in OPS.items():
        case = {'part': part, 'fmt': list(fmt), 'op': opn, 'rounding': rounding, 'xs': list(xs), 'ys': list(ys)}
        acc.evaluations += len(xs) * len(ys)
        acc.transitions += 1
        acc.dim('op', opn, len(xs) * len(ys))
        try:
            x = mk(xa, fmt, rounding, 'wrap', raw=True, op_sizing='same')
            y = mk(ya, fmt, rounding, 'wrap', raw=True, op_sizing='same')
            z = {'+': lambda: x + y, '-': lambda: x - y, '*': lambda: x * y}[opn]()
            got = codes(z)
            zf = (z.signed, z.n_word, z.n_frac)
        except Exception as e:
            acc.violation('exception', case, 'fmt=%s %s sizing=same wrap raised %r' % (fmt.dtype, opn, e), {'part': part, 'op': opn})
            continue
        if zf != tuple(fmt):
            acc.violation('format', case, 'fmt=%s %s sizing=same: result format %s' % (fmt.dtype, opn, zf), {'part': part, 'op': opn})
            continue
        k = 0
        bad = None
        nt = 0
        for a in xs:
            for b in ys:
                if opn == '*':
                    e = quantize_code(a * b, fmt.n_frac, fmt, rounding, 'wrap') if fmt.n_frac >= 0 else \
                        quantize_code((a * b) << -fmt.n_frac, 0, fmt, rounding, 'wrap')
                else:
                    e = quantize_code(op(a, b), 0, fmt, rounding, 'wrap')
                if e[1] or e[2]:
                    nt += 1
                if got[k] != e[0] and bad is None:
                    bad = (a, b, got[k], e[0])
                k += 1
        acc.nontrivial += nt
        acc.outcome('register_wrapped', nt)
        if bad:
            regime = 'product_over_53_bits_narrowed' if (opn == '*' and fmt.n_frac > 0 and 2 * fmt.n_word > 53) else 'plain'
            acc.violation('register', dict(case, xs=[bad[0]], ys=[bad[1]]), 'fmt=%s rounding=%s: code %d %s code %d with sizing=same/wrap gives %d, expected %d'
                          % (fmt.dtype, rounding, bad[0], opn, bad[1], bad[2], bad[3]), {'op': opn, 'regime': regime}, full=case)
        acc.sample(dict(case, xs=list(xs)[:2], ys=list(ys)[:2]), 1)


def register_out(acc, fmt, xs, ys, part):
    """x op y stored into an explicit destination register with overflow=wrap, by out=, config.op_out and numpy out=;
    destinations narrower and wider than the exact result, same fraction length (so the register only wraps)"""
    from ..common import fx
    n = fmt.n_word
    for opn, op in OPS.items():
        for dfmt in (Fmt(True, n, fmt.n_frac), Fmt(False, n + 1, fmt.n_frac), Fmt(True, 2 * n + 1, fmt.n_frac), Fmt(False, 2 * n + 1, fmt.n_frac),
                     Fmt(True, 2 * n + 1, 2 * fmt.n_frac)):
            if not dfmt.signed and fmt.signed:
                continue
            if opn == '*' and dfmt.n_frac != 2 * fmt.n_frac and fmt.n_frac != 0:
                continue
            if opn != '*' and dfmt.n_frac != fmt.n_frac:
                continue
            for via in ('out=', 'op_out', 'np_out'):
                case = {'part': part, 'regout': True, 'fmt': list(fmt), 'dfmt': list(dfmt), 'op': opn, 'via': via, 'xs': list(xs), 'ys': list(ys)}
                acc.evaluations += len(xs)
                acc.transitions += 1
                acc.nontrivial += len(xs)
                m = min(len(xs), len(ys))
                try:
                    dt = object if n >= 64 else np.int64
                    x = mk(np.array(xs[:m], dtype=dt), fmt, 'trunc', 'wrap', raw=True)
                    y = mk(np.array(ys[:m], dtype=dt), fmt, 'trunc', 'wrap', raw=True)
                    t = mk(np.zeros(m), dfmt, 'trunc', 'wrap')
                    f = {'+': fx.add, '-': fx.sub, '*': fx.mul}[opn]
                    if via == 'out=':
                        z = f(x, y, out=t)
                    elif via == 'op_out':
                        x.config.op_out = t
                        z = do_binop(opn, x, y)
                    else:
                        z = {'+': np.add, '-': np.subtract, '*': np.multiply}[opn](x, y, out=t)
                    got = codes(z)
                except Exception as e:
                    acc.violation('exception', case, '%s %s into wrap register %s via %s raised %r' % (fmt.dtype, opn, dfmt.dtype, via, e),
                                  {'part': part, 'op': opn, 'via': via})
                    continue
                exp = []
                for a, b in zip(xs[:m], ys[:m]):
                    r = op(a, b)
                    nf_exact = 2 * fmt.n_frac if opn == '*' else fmt.n_frac
                    r <<= (dfmt.n_frac - nf_exact)
                    exp.append(overflow_code(r, dfmt, 'wrap'))
                if got != exp or z is not t:
                    i = [j for j in range(m) if got[j] != exp[j]]
                    i = i[0] if i else 0
                    acc.violation('register_out', dict(case, xs=[xs[i]], ys=[ys[i]]), '%s code %d %s code %d into wrap register %s via %s: %s, expected %d'
                                  % (fmt.dtype, xs[i], opn, ys[i], dfmt.dtype, via, got[i], exp[i]), {'part': part, 'op': opn, 'via': via}, full=case)
                else:
                    acc.outcome('register_out_ok')


def do_binop(opn, x, y):
    return x + y if opn == '+' else (x - y if opn == '-' else x * y)


def run_shard(sh):
    reset_class_state()
    acc = Acc()
    part = sh['part']
    nw = sh['nw']
    if part == 'a':
        for nf in range(-8, nw + 9):
            fmt = Fmt(sh['signed'], nw, nf)
            ds = [qval(k, fmt) for k in al.quarter_sweep(fmt, 2)]
            for r in ROUNDINGS:
                judge_array(acc, fmt, r, ds, 'a')
            if nw <= 4 and -2 <= nf <= nw + 2:
                # sources that are fixed-point objects: the other signedness, one more bit, a finer / coarser fraction
                for sfmt in (Fmt(not sh['signed'], nw, nf), Fmt(sh['signed'], nw + 1, nf), Fmt(not sh['signed'], nw + 2, nf + 1), Fmt(True, nw + 2, nf - 1)):
                    scs = list(range(sfmt.lo, sfmt.hi + 1))
                    for route in FXP_ROUTES:
                        judge_fxp_source(acc, fmt, ROUNDINGS[(nf + FXP_ROUTES.index(route)) % len(ROUNDINGS)], sfmt, scs, route, 'a')
            if nw <= 4:
                for h in HISTS:
                    judge_array(acc, fmt, ROUNDINGS[(nf + HISTS.index(h)) % len(ROUNDINGS)], ds, 'a', False, h)
    elif part == 'as':
        for nf in range(-8, nw + 9):
            fmt = Fmt(sh['signed'], nw, nf)
            for k in al.quarter_sweep(fmt, 2):
                d = qval(k, fmt)
                for r in ROUNDINGS:
                    for c in SC_CARRIERS:
                        judge_scalar(acc, fmt, r, d, c, 'ctor', 'as')
                    for rt in ROUTES[1:]:
                        judge_scalar(acc, fmt, r, d, 'float', rt, 'as')
                        judge_scalar(acc, fmt, r, d, 'int', rt, 'as')
    elif part == 'b':
        for nf in range(-8, nw + 9):
            fmt = Fmt(sh['signed'], nw, nf)
            ds = []
            for c in al.code_alphabet(fmt, sh['seed']) + al.out_of_range_alphabet(fmt):
                for off in al.OFFSETS_Q:
                    d = qval(4 * c + off, fmt)
                    if in_core(d, fmt):
                        ds.append(d)
                    else:
                        acc.skipped += 1
            if ds:
                for r in ROUNDINGS:
                    judge_array(acc, fmt, r, ds, 'b')
                if nw in (8, 16, 32, 52):
                    for h in HISTS:
                        judge_array(acc, fmt, ROUNDINGS[(nf + HISTS.index(h)) % len(ROUNDINGS)], ds, 'b', False, h)
    elif part == 'd':
        run_wide(acc, sh)
    elif part == 'h':
        # one process, formats visited in an order that interleaves signedness and neighbouring word lengths, forward then
        # backward: exposes state kept between calls (e.g. a cache keyed by less than the full format)
        order = []
        for nw in sh['words']:
            order += [Fmt(True, nw, 0), Fmt(False, nw - 1, 0), Fmt(False, nw, 0), Fmt(True, nw + 1, 0), Fmt(True, nw, nw // 2), Fmt(False, nw, nw // 2)]
        order = [f for f in order if f.n_word >= 1]
        for fmt in order + order[::-1]:
            cs = sorted({fmt.lo - fmt.span, fmt.lo - 1, fmt.lo, -fmt.span // 2, -1, 0, 1, fmt.hi, fmt.hi + 1, fmt.hi + fmt.span, -(1 << (fmt.n_word - 1)) if fmt.n_word > 1 else -1})
            ds = [qval(4 * c + off, fmt) for c in cs for off in (0, 2)]
            ds = [d for d in ds if in_core(d, fmt)] if fmt.n_word < 60 else []
            if ds:
                for r in ('trunc', 'around'):
                    judge_array(acc, fmt, r, ds, 'h', shift_inv=False)
                judge_scalar(acc, fmt, 'floor', ds[0], 'int' if ds[0][1] == 0 else 'float', 'ctor', 'h')
                judge_scalar(acc, fmt, 'floor', ds[1], 'float', 'set_val', 'h')
            if fmt.n_word >= 60:
                for c in cs:
                    for route in ('ctor', 'set_val'):
                        exp = overflow_code(c, fmt, 'wrap')
                        acc.evaluations += 1
                        acc.transitions += 1
                        try:
                            got, fl = wide_store(fmt, c, route, True)
                            if got != exp:
                                acc.violation('code', {'part': 'd', 'fmt': list(fmt), 'code': c, 'route': route, 'raw': True},
                                              'fmt=%s wrap raw code %d (interleaved history): stored %d expected %d' % (fmt.dtype, c, got, exp),
                                              {'part': 'h', 'route': route})
                        except Exception as e:
                            acc.violation('exception', {'part': 'd', 'fmt': list(fmt), 'code': c, 'route': route, 'raw': True},
                                          'fmt=%s wrap raw code %d (interleaved history) raised %r' % (fmt.dtype, c, e), {'part': 'h', 'route': route})
    elif part == 'e':
        for signed in (True, False):
            for nf in sorted({0, nw // 2, nw}):
                fmt = Fmt(signed, nw, nf)
                cs = list(range(fmt.lo, fmt.hi + 1))
                for r in ('trunc', 'floor', 'around'):
                    register(acc, fmt, cs, cs, r, 'e')
    elif part == 'eb':
        for signed in (True, False):
            for nf in sorted({0, nw // 2}):
                fmt = Fmt(signed, nw, nf)
                cs = [c for c in {fmt.lo, fmt.lo + 1, -1, 0, 1, 2, 3, fmt.hi - 1, fmt.hi, fmt.hi // 2, fmt.hi // 3, (fmt.lo // 3) | 1,
                                  (1 << (nw // 2)) - 1, (1 << (nw // 2)) + 1} | set(al.seed_bits(sh['seed'], 'reg', nw - 1, 2))
                      if fmt.lo <= c <= fmt.hi]
                cs = sorted(cs)
                register(acc, fmt, cs, cs, 'trunc', 'eb')
                if nw <= 64:
                    big = [c for c in cs if abs(c) >= fmt.hi // 3][:6] + [1]
                    register_out(acc, fmt, [a for a in big for b in big], [b for a in big for b in big], 'eb')
    return acc


def replay(case):
    reset_class_state()
    acc = Acc()
    fmt = Fmt(*case['fmt'])
    part = case['part']
    if case.get('regout'):
        register_out(acc, fmt, case['xs'], case['ys'], part)
        return [v for v in acc.violations if v['case'].get('via') == case['via'] and v['case'].get('op') == case['op'] and v['case'].get('dfmt') == case['dfmt']]
    if part in ('e', 'eb'):
        register(acc, fmt, case['xs'], case['ys'], case['rounding'], part)
    elif part == 'd':
        c = case['code']
        raw = case['raw']
        try:
            got, fl = wide_store(fmt, c, case['route'], raw)
            r = c if raw else c << fmt.n_frac
            exp = overflow_code(r, fmt, 'wrap')
            if got != exp or fl[:2] != (r > fmt.hi, r < fmt.lo):
                acc.violation('code', case, 'stored %d flags %s expected %d' % (got, fl[:2], exp), {'part': 'd', 'route': case['route'], 'raw': raw})
        except Exception as e:
            acc.violation('exception', case, repr(e), {'part': 'd', 'route': case['route'], 'raw': raw})
    elif case.get('fxp_source'):
        judge_fxp_source(acc, fmt, case['rounding'], Fmt(*case['src']), case['codes'], case['route'], part)
    elif part == 'd-arr2':
        wide_2d(acc, fmt, case['codes'])
        return [v for v in acc.violations if v['case'].get('layout') == case['layout']]
    elif part == 'd-arr':
        cs = case['codes']
        try:
            x = mk(np.array(cs, dtype=object), fmt, 'trunc', 'wrap', raw=True)
            if codes(x) != [overflow_code(c, fmt, 'wrap') for c in cs]:
                acc.violation('code', case, 'object array codes differ', {'part': 'd', 'carrier': 'objarr'})
        except Exception as e:
            acc.violation('exception', case, repr(e), {'part': 'd', 'carrier': 'objarr'})
    elif part.endswith('-shift'):
        ds = [tuple(d) for d in case['vals']]
        sh, keep = shifted_inputs(fmt, case['rounding'], ds, case['m'])
        g1 = codes(mk(np.array([dy_float(d) for d in ds]), fmt, case['rounding'], 'wrap'))
        g2 = codes(mk(np.array([dy_float(d) for d in sh]), fmt, case['rounding'], 'wrap'))
        for j, i in enumerate(keep):
            if g2[j] != g1[i]:
                acc.violation('shift', case, 'v=%d/2^%d stores %d, shifted by %d periods stores %d' % (ds[i][0], ds[i][1], g1[i], case['m'], g2[j]),
                              {'part': part[:-6], 'rounding': case['rounding']})
                break
    elif 'carrier' in case:
        judge_scalar(acc, fmt, case['rounding'], tuple(case['vals'][0]), case['carrier'], case['route'], part)
    else:
        judge_array(acc, fmt, case['rounding'], [tuple(d) for d in case['vals']], part, shift_inv=False, hist=case.get('hist'))
    return acc.violations


def finish(merged, tier, seed):
    for oc in ('wrap_from_above', 'wrap_from_below', 'in_range', 'shifted', 'register_wrapped'):
        if merged['outcomes'].get(oc, 0) < 100:
            raise HarnessError('outcome %s under-exercised: %s' % (oc, merged['outcomes'].get(oc)))
    return {}
