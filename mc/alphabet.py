"""Finite alphabets: format grids, code / out-of-range / offset alphabets, seed-derived extra letters."""
import random
from .refmodel import Fmt, ROUNDINGS, OVERFLOWS, MODES

WIDE = (64, 65, 66, 72, 96, 127, 128, 129, 200, 256)
OFFSETS_Q = (-3, -2, -1, 0, 1, 2, 3)          # in quarter LSBs


def grid(nw_min, nw_max, nf_lo=-8, nf_hi_extra=8):
    """all formats with nw_min <= n_word <= nw_max, nf_lo <= n_frac <= n_word + nf_hi_extra"""
    out = []
    for signed in (True, False):
        for nw in range(nw_min, nw_max + 1):
            for nf in range(nf_lo, nw + nf_hi_extra + 1):
                out.append(Fmt(signed, nw, nf))
    return out


def G(k):
    return grid(1, k)


def seed_bits(seed, tag, n_word, count):
    """`count` seed-derived extra bit patterns of n_word bits (deterministic in (seed, tag, n_word))"""
    rnd = random.Random('%d/%s/%d' % (seed, tag, n_word))
    return [rnd.getrandbits(n_word) for _ in range(count)]


def code_alphabet(fmt, seed=0, extras=4):
    """B(f): boundary, powers of two +-1, walking ones/zeros, alternating patterns, seed extras; all in [lo,hi]"""
    lo, hi, n = fmt.lo, fmt.hi, fmt.n_word
    s = {lo, lo + 1, lo + 2, -2, -1, 0, 1, 2, hi - 2, hi - 1, hi}
    for j in range(n):
        p = 1 << j
        s.update((p, p - 1, p + 1, -p, -p - 1, -p + 1))
    mask = (1 << n) - 1
    pats = [0xAAAAAAAAAAAAAAAAAAAAAAAAAAAAAAAAAAAAAAAAAAAAAAAAAAAAAAAAAAAAAAAAAAAAAAAA & mask,
            0x5555555555555555555555555555555555555555555555555555555555555555555555 & mask]
    for j in range(n):
        pats.append(mask ^ (1 << j))          # walking zero
    pats.extend(seed_bits(seed, 'code', n, extras))
    for p in pats:
        s.add(p)
        if fmt.signed:
            s.add(p - (1 << n) if p >> (n - 1) else p)
    return sorted(c for c in s if lo <= c <= hi)


def out_of_range_alphabet(fmt):
    """X(f): just outside, one span outside, many spans outside"""
    lo, hi, sp = fmt.lo, fmt.hi, fmt.span
    s = {lo - 1, lo - 2, hi + 1, hi + 2, lo - sp, hi + sp, lo - sp - 1, lo - sp + 1, hi + sp - 1, hi + sp + 1}
    for k in (2, 3, 1024):
        s.add(lo - k * sp)
        s.add(hi + k * sp)
    return sorted(s)


def quarter_sweep(fmt, t=1):
    """Q(f,t): all k (quarter-LSB units of the scaled value) with 4(lo - t*span) <= k <= 4(hi + t*span)"""
    return range(4 * (fmt.lo - t * fmt.span), 4 * (fmt.hi + t * fmt.span) + 1)


def chunks(seq, n):
    seq = list(seq)
    return [seq[i:i + n] for i in range(0, len(seq), n)]


def fmt_list(fmts):
    return [list(f) for f in fmts]
