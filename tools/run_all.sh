#!/bin/sh
# tools/run_all.sh <tier> [seed]: every check once, one line each
tier=${1:-quick}; seed=${2:-0}
cd "$(dirname "$0")/.."
for i in 01 02 03 04 05 06 07 08 09 10 11 12 13 14 15 16 17 18 19 20; do
  s=$(date +%s)
  out=$(VERIF_SEED=$seed ./check C$i --tier $tier 2>&1); rc=$?
  e=$(date +%s)
  echo "C$i rc=$rc $((e-s))s :: $(echo "$out" | grep -E '^C[0-9]+ (quick|thorough)' | cut -c1-200) $(echo "$out" | grep -c '^VIOLATION') viol $(echo "$out" | grep -c '^KNOWN-FINDING') known"
done
