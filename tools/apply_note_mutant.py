import sys, os
sys.path.insert(0, os.path.join(os.path.dirname(os.path.abspath(__file__)), '..', 'notes'))
from mutant_candidates import SURVIVORS
name, d = sys.argv[1], sys.argv[2]
f, old, new = SURVIVORS[name]
p = os.path.join(d, 'fxpmath', f)
s = open(p).read()
if s.count(old) != 1:
    sys.exit('pattern occurs %d times' % s.count(old))
open(p, 'w').write(s.replace(old, new))
