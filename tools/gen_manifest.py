#!/venv/bin/python
"""Regenerates /verif/MANIFEST.json from the table below (keeps it valid at all times)."""
import json, os, sys

VERIF = os.path.dirname(os.path.dirname(os.path.abspath(__file__)))
sys.path.insert(0, VERIF)

TECH_E1 = ('bounded exhaustive model checking of the implementation: product explorer (every point of a finite '
           'format x mode x input x carrier x route space executed on the real code, compared with an exact integer reference model)')
TECH_E2 = ('bounded exhaustive model checking of the implementation: explicit-state BFS over operation histories on the real '
           'objects (canonical-state dedup, invariant on every state, reference model stepped in lock-step) plus product explorer')


ENVT = (' Environments (common.ENVS): the same cases with a behaviour-neutral second feature in force - configuration options on the operands, a class-level '
        'template, subclass instances (both / left / right), operands with raised flags, callbacks.')
AGED = ('operands / sources also reached through five histories (common.build_aged: used-then-rewritten in place, view of a used parent written '
        'through the parent, siblings re-formatted, used-then-derived, integer-born then resized) and required to behave like fresh ones')
# dimensions added after the fourth wave of seeded changes (appended to the level text)
ADDENDA = {
    'C01': 'Fixed-point array objects with 2..12 surplus fraction bits as sources by 7 routes; one array mixing a huge magnitude with ordinary inputs; destinations with a history (widened shallow copy / view, resized back, used, stored huge values before). Array carriers (incl. NumPy arrays of decimal strings) are also checked for aliasing: a second object stored from the same array and an in-place rewrite of the first leave both the second object and the array unchanged.',
    'C02': 'Saturation clause also with Python ints inside list / tuple / nested containers. Part V: derive (slice, row, copy(), T, element, reversed view) x re-format (6 ways) x write through the derived object (5 ways): every object alive, the parent included, stays well-formed.',
    'C03': 'Fixed-point objects of the other signedness / wider / finer as sources by 7 routes; destinations re-signed by resize and written element by element. Destinations with a history (shallow copy / view widened first, widened and narrowed back, used); 2-d object arrays of >=64-bit codes in C / transposed / Fortran / reversed layouts and sums of transposed wide operands.',
    'C04': 'After every derived result both operands keep their flags. Write carriers: decimal strings, tuples / lists / NumPy arrays of them, narrow dtypes, nested tuples; callbacks registered only after a prelude (flag-raising writes, reset, resize) must hear about the judged write alone.',
    'C05': 'Fixed-point sources with 3..20 surplus fraction bits incl. the neighbours of every input on the source grid; destinations re-signed by resize and written element by element. Destinations with a history (shallow copy widened to 64 bits / re-formatted, view widened and written, widened and narrowed back, used).',
    'C06': 'Rounding / overflow / shifting options passed next to the sizes; values supplied as an Fxp object (which must stay untouched). A Config whose every setting was changed to other valid values and put back must be state-equal to a fresh one and infer the same formats.',
    'C07': AGED + '.' + ENVT + ' Also: the same object on both sides (x op x).',
    'C08': AGED + '.' + ENVT + ' Also: op / reconfigure exactly one of {modes, const_op_sizing, op_input_size} / same op with the same constant; target formats whose n_frac is up to 47 bits away from the exact result\'s (saturate: any magnitude; wrap: scaled result below 2^62).',
    'C09': AGED + '.' + ENVT + ' Also: wide operands (12..52 bits) whose binary points are far apart, result word <= 53 bits.',
    'C10': AGED + '; codes next to the destination grid and its ties by every route x rounding direction (8..52-bit formats); routes resize(signed, n_int, n_frac) and Fxp(x, n_int=...); scalar sources that are elements of an array read before and after a resize by dtype; rescaling by up to 52 bits under saturate (no 62-bit limit).',
    'C11': 'Rendering under configured bin / hex prefixes and unrelated options; rendering never changes the codes. hex / base_repr / bin(frac_dot) of 2-d objects in five non-C layouts; strings fed into objects reached through a history (integer-born then resized by n_frac / dtype, like-derived, used).',
    'C12': 'Complex dtype strings combined with like= / class-level template of a real object; render - store complex - render - store real - render histories.',
    'C13': AGED + '.' + ENVT + ' Also: array second operands (outer, equal-length, matrix x vector, scalar x vector) at every word length; format-change histories: an object already used in ~ / & is widened by 1, 2, 5 bits or given the other signedness at the same / one more bit (resize, like=, deep copy + resize), then ~ & | ^ must be those of the new format.',
    'C14': AGED + '.' + ENVT + ' Also: every power of two, its neighbours and the extremes as single elements x every shift count up to 62 - n_word.',
    'C15': AGED + '; clip with bounds outside the range, negative lower bound for unsigned formats, integer bounds.',
    'C16': AGED + '.' + ENVT + ' Also: format pairs whose binary points are up to 68 bits apart (n_frac in {-8, 0, n+8, 44, 60}).',
    'C17': 'Inference options (max_error, n_word_max, rounding) differentially against the unscaled object built from (v-b)/s; repeated integer / float / element reads leave the codes alone. Histories on live scaled objects: created in another format and read, then resize by n_frac / dtype / n_word+n_int, like=, or set_best_sizes, then store and read.',
    'C18': 'Operands of the other signedness with and without the top bit set; every read / render / operator leaves the codes alone. Python ints around 2^63 / 2^64 in 7 container kinds (raw and value mode); every derived wide object (like=, template, deepcopy, ~ & | ^, T, flatten, trunc shift, like()) is then overflowed, resized to 16 bits and stored inexactly - its sources keep their record.',
    'C19': 'Wide-word environments (n_word_max, max_error, prefixes, op_input_size ... set on the operands). operate - rewrite every element in place - operate histories on vector operands (incl. >=64-bit words); the same object on both sides.',
    'C20': 'Every derivation is bracketed by a full observation (codes, flags, configuration, storage and value type) of every object alive; roots with 64-bit negative codes, integer scale/bias, unsigned; derivations: all public reads, % // / by both methods, products into a finer out, integer clip, constructor keywords next to config= / like= / template=. Containers mixing numbers and bin/hex strings in every position; containers stored into formats without fraction bits, 64-bit words and negative n_frac; two objects built from one array, then an indexed write.',
}

# property -> (built?, technique, level text, level note, design ref)
CHECKS = {
    'C01': (TECH_E1,
            'No execution in the enumerated space stores a code different from OVERFLOW(ROUND(v*2^n_frac)): all formats n_word<=7 '
            '(thorough 10) x 10 modes x every quarter-LSB input over 3x the range; every format of the 1..52-bit grid x boundary/'
            'walking-bit/out-of-range alphabet x 7 sub-LSB offsets; all 40 carriers x 4 routes on small scopes under deviation bound 2 '
            '(thorough: full cross); huge floats under saturate; complex components. A coverage statement, not a proof: values '
            'outside the alphabets on formats above the small scope are not visited.',
            'Trusted: the integer reference quantizer (cross-checked by the oracle-free relations of C05), IEEE-754 exactness of '
            'power-of-two scaling, CPython/NumPy themselves.', 'DESIGN.md section 4 C01'),
    'C03': (TECH_E1,
            'No execution in the enumerated space stores, under wrap, anything but the unique in-range integer congruent to the rounded '
            'input mod 2^n_word: all formats n_word<=6 (thorough 8) x 5 roundings x every quarter-LSB input over 5x the range; the 1..52-bit '
            'grid x boundary/out-of-range alphabet; oracle-free shift invariance (v vs v+m*2^(n_word-n_frac)); wide words 64..256 with Python '
            'ints of up to 4x the word length by three routes; register behaviour of + - * with sizing same (all code pairs n_word<=4/5, '
            'boundary pairs at 8..65 bits).',
            'Trusted: reference wrap on Python ints. Shift invariance for trunc/fix is only demanded where the shift does not move a '
            'non-representable input across zero (rounding toward zero does not commute with it otherwise). One known finding (D12).',
            'DESIGN.md section 4 C03'),
    'C05': (TECH_E1,
            'No execution in the enumerated space violates the rounding contracts, judged by order relations on exact integers only (no '
            'reference quantizer): direction, |q-v|<LSB, ties-to-even, representable values unchanged and unflagged in all 10 modes '
            '(every code of every format n_word<=8), x(x()) and x.set_val(x) no-ops, monotonicity of the sorted sweep under saturate; '
            'small scope n_word<=7 (thorough 10) exhaustively, boundary alphabet on the 1..52-bit grid; float and integer carriers.',
            'Trusted: integer comparison code in mc/props/c05.py:relation(); independent of mc/refmodel.quantize, so it also guards C01\'s oracle.',
            'DESIGN.md section 4 C05'),
    'C04': (TECH_E2,
            'No explored write or history reports flags/callbacks different from the reference conditions: every quarter-LSB input over 3x the '
            'range on all formats n_word<=4 (thorough 6) x 10 modes with the callback multiset compared; all 84 element-class vectors of '
            'length 1..3; boundary arrays on the 1..52-bit grid; BFS over histories (29 events: writes by 3 routes in 6 classes, raw writes '
            'incl. fractional raw values, reset, 3 resizes, 4 config changes, deep copy) to depth 4 (thorough 6) with canonical-state dedup '
            'and depth 2 (3) without, 9 derived results (x+y, x-y, y-x, x*y, x/y, x//y, x%y, sum, Fxp(x)) observed in every state.',
            'Trusted: reference conditions from mc/refmodel.quantize. For resize/config change/copy only stickiness is asserted. Unary '
            'operators and shifts are not claimed by the property and not judged.', 'DESIGN.md section 4 C04'),
    'C20': (TECH_E2,
            'No explored derivation chain yields objects that share config, status record, callback list or (outside index views) the value '
            'buffer, statically (identity / np.shares_memory) and dynamically (13 mutations applied to every object of the heap on fresh '
            'rebuilds, all others re-observed): 6 roots x 58 derivation routes, chains to depth 2 (thorough 3); x[i][j]=v must write through. '
            'Input containers: 36 container kinds x 10 routes, deep snapshot and memory-sharing tests. Config validation: 16 attributes x '
            'valid/invalid alphabets x 5 routes.',
            'Trusted: the observation covers every field public operations read. copy() (explicit shallow copy) is not judged. A derivation '
            'or container/route combination that raises is not a state (counted, not judged).', 'DESIGN.md section 4 C20'),
    'C10': (TECH_E2,
            'No explored conversion yields anything but quantize(exact source value) under the destination modes, whatever the route: all pairs '
            'of 44 (thorough 68) formats with n_word<=5 (6) x all source codes (1-d, scalars, 2-d) x 10 destination modes x 11 routes (resize by '
            'sizes / dtype, like=, like(), Fxp(x,sizes), call, set_val, equal, indexed assignment, fxp_like, value-level baseline), sources built '
            'raw and by value; boundary codes between 8..52-bit formats; source observation, shape and destination flags compared; BFS over '
            'conversion sequences (192 events) to depth 4 (thorough 6) with dedup and 2 (3) without, reference model in lock-step.',
            'Trusted: reference quantizer (C01/C05). Routes are compared through the common expected value (differential).',
            'DESIGN.md section 4 C10'),
    'C02': (TECH_E2,
            'No reachable object violates the well-formedness invariant (codes inside the format, n_int, upper/lower/precision through scale and '
            'bias, dtype string, 4-key status record): BFS over programs from 75 roots with a menu of 104 public operations (construct, writes '
            'in 8 value classes incl. 1e300 and 2**70, full/dtype/partial resizes, like/equal/Fxp(x)/fxp_like, + - * / // % under all 5 sizing '
            'policies, constants, unary, shifts under all 3 shifting modes, bitwise, indexing, reductions, reset, deepcopy, config changes) to '
            'depth 2 (thorough 3 with dedup, 2 without), invariant evaluated on both heap objects in every state. Saturation clause: floats up to '
            'DBL_MAX and Python ints up to 2^1000 into 28 formats x 5 roundings x 4 routes go to the bound on their own side with that flag.',
            'Trusted: invariant checker mc/props/c02.py:wellformed (Fractions). States with n_word>52 are observed but not expanded; an event '
            'that raises is not a state.', 'DESIGN.md section 4 C02'),
    'C07': (TECH_E1,
            'No explored + - * with optimal sizing is inexact, flagged, or off the documented growth format: all ordered pairs of the 44 '
            'formats with n_word<=4 (thorough 5), n_frac -1..n_word+1, x every code pair (broadcast) x 3 call routes, vector/scalar shapes, '
            'scalar x scalar; the nine extreme/interior corners of every format pair on the <=26-bit grid with result word<=53; expression-tree '
            'closure from extreme leaves to depth 2 (thorough 4, one-sided beyond 2) with dedup on (format, code).',
            'Trusted: growth rules as stated in the property; exact integer arithmetic on codes.', 'DESIGN.md section 4 C07'),
    'C08': (TECH_E1,
            'No explored operation into an imposed format differs from the exact result quantized once under the governing configuration: all '
            'ordered pairs of the 21 (thorough 32) formats with 2<=n_word<=4 (5), n_int>=0 x every code pair x {+,-,*} x {same,largest,smallest} '
            'x {raw,repr} x 10 modes on the first operand with a different pair on the second; out= / out_like= for every target format x 3 '
            'target mode pairs; 56 dyadic constants on either side x op_input_size x const_op_sizing; unary - + abs on every code, n_word<=8; '
            'boundary pairs at 6/8/12 bits. Result config, identity of out, flags compared.',
            'Trusted: reference quantizer; imposed-format rule for the policies from docs/config.md.', 'DESIGN.md section 4 C08'),
    'C09': (TECH_E1,
            'No explored division violates: x/y exact when representable else strictly within one LSB and never overflowing; x//y == floor; '
            'x%y == x - y*floor(x/y); (x//y)*y + x%y == x; raw == repr on // and %: all ordered pairs of formats n_word<=4 (thorough 5), n_frac '
            '0..n_word x every code pair with divisor != 0 x {raw,repr} x {trunc,floor,around}; boundary pairs up to 26 bits (result <=53).',
            'Trusted: Fraction arithmetic; optimal result formats as anchored in the property.', 'DESIGN.md section 4 C09'),
    'C06': (TECH_E1,
            'No explored construction infers a format other than the definition-level minimum (fewest fraction bits, then fewest word bits with '
            'n_int>=0) or stores a dyadic value inexactly: all k/2^f (f<=4,|k|<=256; thorough f<=6,|k|<=1024) and 1296 boundary values '
            '+-{2^j, 2^j+-2^-f} as int/float/array x signedness x 5 patterns of given sizes; ordered pairs (thorough: triples) from a 12-letter '
            'array alphabet; capped cases (doubles / arrays needing more than 64 bits): word<=64, error<LSB, inaccuracy iff inexact.',
            'Trusted: mc/props/c06.py:infer (search over Python ints). Minimality is only demanded inside the stated dyadic domain.',
            'DESIGN.md section 4 C06'),
    'C12': (TECH_E1,
            'Complete enumeration of the stated domain: every (signed, n_word, n_frac -8..n_word+8) for n_word in 1..70 + {100,128,200,256} '
            '(thorough: 1..256, 74k formats): dtype attribute, get_dtype(None/fxp/Q) under both configured notations and after switching the '
            'notation on a live object, construction and resize from the fxp spelling (also upper case), from Q/q/S/s/UQ/uq/U/u/Uq/QU spellings '
            'when m>=0, the complex suffix (n_word<=52), and fxp_sum(dtype=) as the public route into utils.get_sizes_from_dtype.',
            'Trusted: the two spelling functions in mc/props/c12.py.', 'DESIGN.md section 4 C12'),
    'C13': (TECH_E1,
            "No explored bitwise operation differs from the bitwise combination of the n_word-bit two's-complement patterns in x's format: "
            'n_word<=5 (thorough 6): every x code (array and scalars) x every y code of an Fxp of either signedness x n_frac(x) 0..n_word x '
            '{&,|,^}, int masks on either side, ~ with ~~x==x and ~x==-x-LSB, De Morgan on all code pairs; boundary/walking-bit/seed codes at '
            '16,31,32,33,63,64,65,100,128 bits; every ordered pair of different word lengths 1..8 must raise for &, |, ^ separately.',
            'Trusted: Python integer bit operations. array op array is not claimed and not judged.', 'DESIGN.md section 4 C13'),
    'C14': (TECH_E1,
            'No explored shift violates: expand mode x<<n == x*2^n and x>>n == x/2^n exactly with no flag; trunc/keep: format unchanged, >> is '
            'floor(code/2^n), << is code*2^n or (when not representable) the clamped or wrapped code; shift by 0 keeps the value (and the format '
            'outside expand mode); operand unchanged: every code of formats n_word<=5 (thorough 6), n_frac {0, n/2} x 3 shifting modes x 2 overflow '
            'modes x both directions x n in 0..n_word+3, whole-format arrays, all ordered code pairs as arrays (n_word<=3/4); boundary codes up to '
            '32 bits.', 'Trusted: Python integer shifts and Fractions.', 'DESIGN.md section 4 C14'),
    'C15': (TECH_E1,
            'No explored reduction differs from the same reduction on exact Fractions: 12 shapes up to 3x3 / length 8 x 34 formats (n_word in '
            '{1,2,3,4,8,12}) x extreme fills (quick: all {lo,hi} assignments up to size 4 plus structured extreme patterns; thorough: all 2^size) x '
            'sum, cumsum, prod, cumprod, max, min, sort, clip, transpose, T, trace, diagonal by numpy-function and method routes, axis None and '
            'each axis; dot / matmul over 13 shape pairs x all ordered format pairs (mixed signedness) x extreme fills; no overflow/underflow flag '
            'on the accumulating ones; the two routes must agree.',
            'Trusted: NumPy reductions over object arrays of Fractions (NumPy orchestrates, arithmetic is exact).', 'DESIGN.md section 4 C15'),
    'C16': (TECH_E1,
            'No explored comparison or conversion differs from the exact stored value: all ordered pairs of formats n_word<=4 (thorough 5), n_frac '
            '-1..n_word+1 x every code pair x 6 operators, operands built raw and by value (integer value type), Fxp/number and number/Fxp; adjacent '
            'values across formats up to 24 bits; get_val, astype(float), float(), astype(int), int(), bool(), raw(), uraw(), x() for every code of '
            'every format n_word<=8, arrays and scalars.', 'Trusted: Fractions.', 'DESIGN.md section 4 C16'),
    'C17': (TECH_E1,
            'No explored scaled store/read differs from the affine model: formats n_word<=3 (thorough 4), n_frac -2..n_word+2 x 10 modes x 11 scales '
            '(incl. 3, 3/2, 5, negative) x 8 biases x every quarter-LSB unscaled target over 3x the range; int- and float-typed parameters; 4 routes; '
            'int64-array carrier; boundary targets at 8/12/16 bits with single-element stores (per-element flags); read-back, upper/lower/precision, '
            'flags; raw re-write + same-format resize history; inferred formats for 164 dyadic targets.',
            'Trusted: reference quantizer/inference; a case is admitted only if every float intermediate is exact (checked with Fractions).',
            'DESIGN.md section 4 C17'),
    'C11': (TECH_E1,
            "No explored rendering differs from Python's own format(code % 2**n, 'b') / '%X' / sign-magnitude numerals, and no explored parse "
            'fails to restore the code: every code of every format n_word<=8, n_frac 0..n_word; boundary/walking-bit/seed codes for 24 (thorough '
            '69) word lengths up to 256; bin with frac_dot and prefixes None/0b/b/True, hex, base_repr 2/8/10/16; scalars, 1-d, 2-d and transposed '
            'views; parsing of the forms 0b / b / plain / 0x / with binary point by constructor, call, set_val, from_bin method and function, in '
            'value mode (n_word<=53) and raw mode (all widths), as list of str, exactly as rendered for 2-d, as 2-d ndarray and nested lists.',
            'Trusted: Python string formatting of integers.', 'DESIGN.md section 4 C11'),
    'C18': (TECH_E1,
            'No explored wide store, rendering or bitwise operation loses a bit: n_word in {62,63,64,65,66,72,96,127,128,129,200,256} x n_frac '
            '{0,1,n/2,n-1,n} x signed/unsigned x {saturate,wrap} x ~330 integer codes per format (bounds and neighbours, multiples of the modulus '
            '+-1, all-ones words and powers of two up to 4x the word length, walking bits, seed letters) by raw constructor / set_val / indexed, '
            'as integer value, as binary and hex string in raw mode, as object array / list of ints / list of strings; bin(), hex(), ~ & | ^ on '
            'arrays and scalars; extended_prec == (n_word>=64) and Python-int storage in every state of store -> reset -> resize -> store -> reset.',
            'Trusted: Python integers. The inaccuracy flag is not judged at these widths (not claimed).', 'DESIGN.md section 4 C18'),
    'C19': (TECH_E1,
            'No explored + - * with optimal sizing loses exactness at the 53/63/64-bit transitions: all ordered pairs of operand words from the '
            'boundary list {2,8,26,27,31,32,33,52,53,54,62,63,64,65,70} (thorough: 2..70) x n_frac {0,n/2,n} (thorough 5 values) x 4 signedness '
            'mixes x a 10-14 letter code alphabet squared (broadcast), scalars and vectors, second-level results up to 256 bits; Python ints '
            '+-(2^e+d) up to 2^1000 and all-ones words stored into 64 formats x 4 (thorough 10) mode pairs x 4 routes with C01 codes and flags.',
            'Trusted: exact integer arithmetic and the growth rules of C07. An exception inside the domain counts as a violation.',
            'DESIGN.md section 4 C19'),
}

NOT_YET = {}


def main():
    props = [json.loads(l) for l in open(os.path.join(VERIF, 'properties.jsonl'))]
    checks, na = [], []
    for p in props:
        pid = p['id']
        if pid in CHECKS:
            tech, text, note, ref = CHECKS[pid]
            checks.append({
                'property_id': pid,
                'quick_cmd': './check %s --tier quick' % pid,
                'thorough_cmd': './check %s --tier thorough' % pid,
                'evidence_file': 'evidence/%s.json' % pid,
                'replay_cmd_template': './check %s --replay {path}' % pid,
                'engine': 'mc',
                'level_claimed': {'category': 'model_checking', 'text': text + (' Added dimensions: ' + ADDENDA[pid] if pid in ADDENDA else ''), 'design_ref': ref},
                'level_note': note,
                'technique': tech,
            })
        else:
            na.append({'property_id': pid,
                       'reason': NOT_YET.get(pid, 'not claimed yet: the harness for this property is still being built '
                                                  '(model checking applies; see DESIGN.md section 4)')})
    m = {
        'version': 1,
        'setup_cmd': '/venv/bin/python -m mc.selftest',
        'hooks': {
            'guard': 'FXPMATH_VERIF',
            'enable': 'no hooks are needed: the harness imports fxpmath from the working tree by putting /repo first on '
                      'sys.path (and asserts fxpmath.__file__); FXPMATH_VERIF=1 is exported by the loader for completeness',
            'baseline_off_cmd': 'cd /repo && /venv/bin/python -m pytest -ra -q -p no:cacheprovider --timeout=900 '
                                '--continue-on-collection-errors',
            'source_commits': [],
            'add_only': True,
        },
        'engines': [{
            'name': 'mc', 'path': 'mc/',
            'serves_properties': [c['property_id'] for c in checks],
            'kind_free_text': 'hand-written explicit-state / product explorer for Python running the real fxpmath code '
                              '(mc/runner.py, mc/explore.py), with an exact integer reference model (mc/refmodel.py)',
        }],
        'checks': checks,
        'not_applicable': na,
        'notes': 'All checks: exit 0 = held on everything explored (KNOWN-FINDING lines possible), exit 1 + VIOLATION line = '
                 'unlisted violation, exit 2 = harness error (wrong tree imported, vacuity guard, nondeterministic replay). '
                 'Fixed defects and known findings: known_findings.json. Seeded changes: seeded/.',
    }
    with open(os.path.join(VERIF, 'MANIFEST.json'), 'w') as f:
        json.dump(m, f, indent=1)
    print('MANIFEST.json: %d checks, %d not_applicable' % (len(checks), len(na)))


if __name__ == '__main__':
    main()
