#!/venv/bin/python
"""tools/intake.py <wave tag, e.g. W4> <origin text> <worktree prefix, e.g. /tmp/w4_> [Cnn ...]

Takes the changes produced by sub-agents in <prefix>Cnn/out/{a,b}, confirms each with tools/verify_seeded.sh
(fresh worktree of /repo HEAD, demo passes clean / fails changed, baseline suite unchanged) and, only when
confirmed, stores it under /verif/seeded/<tag>Cnn<k>/ with the confirmation recorded in meta.json."""
import json, os, shutil, subprocess, sys
from concurrent.futures import ThreadPoolExecutor

tag, origin, prefix = sys.argv[1:4]
props = sys.argv[4:] or ['C%02d' % i for i in range(1, 21)]


def one(job):
    prop, k = job
    src = '%s%s/out/%s' % (prefix, prop, k)
    sid = '%s%s%s' % (tag, prop, k)
    if not os.path.exists(src + '/patch.diff'):
        return sid, 'MISSING'
    r = subprocess.run(['/verif/tools/verify_seeded.sh', src, sid], capture_output=True, text=True).stdout.strip()
    ok = ('demo_clean=0' in r and 'apply=ok' in r and 'demo_mut=0' not in r and '86_passed' in r and 'failed' not in r)
    if ok:
        dst = '/verif/seeded/' + sid
        os.makedirs(dst, exist_ok=True)
        shutil.copy(src + '/patch.diff', dst + '/patch.diff')
        shutil.copy(src + '/demo.py', dst + '/demo.py')
        try:
            meta = json.load(open(src + '/meta.json'))
        except Exception as e:
            meta = {'note': 'meta.json of the sub-agent unreadable: %r' % e}
        meta.setdefault('property', prop)
        meta['origin'] = origin
        meta['confirmed_by_main'] = ['tools/verify_seeded.sh: ' + r]
        json.dump(meta, open(dst + '/meta.json', 'w'), indent=1)
    return sid, ('OK ' if ok else 'REJECTED ') + r


with ThreadPoolExecutor(8) as ex:
    for sid, r in ex.map(one, [(p, k) for p in props for k in 'ab']):
        print(sid, r, flush=True)
