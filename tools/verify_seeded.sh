#!/bin/sh
# verify_seeded.sh <dir with patch.diff demo.py meta.json> <seeded id>
# Confirms in a scratch worktree of /repo (removed afterwards): patch applies, baseline suite unchanged (86 passed,
# same 3 failed), demo fails with the change and passes without.  On success copies to /verif/seeded/<id>/.
src="$1"; id="$2"
wt=/tmp/vs_$id
git -C /repo worktree remove --force $wt >/dev/null 2>&1
git -C /repo worktree add -q --detach $wt HEAD || exit 2
cd $wt || exit 2
mkdir -p out/k && cp "$src/demo.py" out/k/demo.py
res="id=$id"
/venv/bin/python out/k/demo.py >/dev/null 2>&1; res="$res demo_clean=$?"
if git apply "$src/patch.diff" 2>/dev/null; then res="$res apply=ok"; else res="$res apply=FAIL"; fi
/venv/bin/python out/k/demo.py >/dev/null 2>&1; res="$res demo_mut=$?"
/venv/bin/python -m pytest -q -p no:cacheprovider tests -x --deselect tests/test_extended_precision.py::test_numpy_ufunc --deselect tests/test_issues.py::test_issue_77_v0_4_8 --deselect tests/test_operators.py::test_pow 2>&1 | tail -1 > /tmp/vs_$id.tests
res="$res tests=$(cat /tmp/vs_$id.tests | tr ' ' '_')"
echo "$res"
cd /; git -C /repo worktree remove --force $wt
rm -f /tmp/vs_$id.tests
