#!/bin/sh
# tools/mutant.sh <patch.diff | notes:<name>> <tier> <PROP> [<PROP> ...]
# Copies /repo/fxpmath to a scratch dir outside /repo and /verif, applies the change, runs the named checks
# against it (evidence of these runs goes to replays/run/, never to evidence/), removes the scratch dir.
patch="$1"; tier="$2"; shift 2
name=$(echo "$patch" | tr '/:.' '___')
d=/tmp/mut_$name_$$
rm -rf $d; mkdir -p $d && cp -r /repo/fxpmath $d/ && rm -rf $d/fxpmath/__pycache__
case "$patch" in
 revert:*) (cd $d && git -C /repo show "${patch#revert:}" -- fxpmath | patch -R -p1 -s) || { echo "APPLY-FAIL $patch"; rm -rf $d; exit 3; } ;;
 notes:*) (cd /verif && /venv/bin/python tools/apply_note_mutant.py "${patch#notes:}" $d) || { echo "APPLY-FAIL $patch"; rm -rf $d; exit 3; } ;;
 *) (cd $d && git init -q . >/dev/null 2>&1; patch -p1 -s < "$patch") || { echo "APPLY-FAIL $patch"; rm -rf $d; exit 3; } ;;
esac
for p in "$@"; do
  out=$(cd /verif && VERIF_EVIDENCE_DIR=$d/ev ./check $p --tier $tier --repo $d 2>&1); rc=$?
  nv=$(echo "$out" | grep -c '^VIOLATION')
  echo "MUTANT $patch $p rc=$rc violations_reported=$nv :: $(echo "$out" | grep -v '^VIOLATION' | head -2 | tr '\n' '|' | cut -c1-300)"
done
rm -rf $d
