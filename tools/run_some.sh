#!/bin/sh
# tools/run_some.sh <tier> <seed> C08 C09 ... : the named checks once, one line each (uses the tree this script lives in)
tier=$1; seed=$2; shift 2
cd "$(dirname "$0")/.."
for c in "$@"; do
  s=$(date +%s)
  out=$(VERIF_SEED=$seed ./check $c --tier $tier 2>&1); rc=$?
  e=$(date +%s)
  echo "$c rc=$rc $((e-s))s :: $(echo "$out" | grep -E '^C[0-9]+ (quick|thorough)' | cut -c1-220) $(echo "$out" | grep -c '^VIOLATION') viol $(echo "$out" | grep -c '^KNOWN-FINDING') known"
  echo "$out" | grep -v '^VIOLATION' | grep -v '^KNOWN' | grep -v "^C[0-9][0-9] " | head -8 | cut -c1-300
done
