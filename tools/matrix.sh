#!/bin/sh
# tools/matrix.sh <tier> [<regex over seeded ids / "notes:<name>"> [<output suffix>]]
# every seeded change and every notes mutant (matching the regex) x the check of its own property.
# Criterion for "reported": exit 1 AND at least one VIOLATION line.
tier=${1:-quick}; filter=${2:-.}; suffix=${3:-}
out=/verif/mutants/matrix_$tier$suffix.txt
: > $out
run() { # patch props...
  p=$1; shift
  /verif/tools/mutant.sh $p $tier "$@" 2>&1 | grep -E 'MUTANT|APPLY' | cut -c1-260 >> $out
}
n=0
for d in /verif/seeded/*/; do
  id=$(basename $d); prop=$(echo $id | sed "s/^W[0-9]//" | cut -c1-3)
  echo "$id" | grep -Eq "$filter" || continue
  run $d/patch.diff $prop &
  n=$((n+1)); [ $((n % 5)) -eq 0 ] && wait
done
wait
for name in $(cd /verif && /venv/bin/python -c "
import sys; sys.path.insert(0,'notes')
from mutant_candidates import SURVIVORS
print(' '.join(SURVIVORS))"); do
  echo "notes:$name" | grep -Eq "$filter" || continue
  prop=$(echo $name | cut -c1-3 | tr c C)
  run notes:$name $prop &
  n=$((n+1)); [ $((n % 5)) -eq 0 ] && wait
done
wait
sort $out -o $out
grep -c "rc=1 violations_reported=[1-9]" $out; grep -v "rc=1 violations_reported=[1-9]" $out
